import Fcgi.Props.C07NoFuel2
/-!
# C11 — AbortRequest for a Responder whose handler does NOT read: end to end

The Headline's C11 not-proved list: "a Responder that does not read …: poll level only".  Here, end to end:

`abort_unread_e2e`: a Responder request with KEEP_CONN, the wire = preamble ++ records `body` (own Stdin records, any
idle noise — no BeginRequest) ++ an `AbortRequest` record `a` for ITS id, all of it in the transport, any benign
transport; the handler reads NOTHING (`NoRead`: `open Stdout; write_all data; drop; return st`, or just `return st`).
What the model (and the crate: replay) does:

* exactly ONE handler start; the handler is NOT disturbed: its Stdout records and its own status `st` go through;
* the log is exactly `owedPreamble ++ Stdout records of data ++ [Stdout∅][Stderr∅][EndRequest(id, st)] ++ idleOwed body`:
  ONE EndRequest for the id, carrying the HANDLER's status `st` (app status and protocol status of `st`) — not the
  distinguished abort status: the abort is never seen by the request, because nothing reads the input;
* the `AbortRequest` record itself: `close()` consumes nothing of the input (`writeable()` is ready, `record_boundary()`
  returns at once: the stream parser has not started a record); the whole tail `body ++ [a]` is handed to the NEXT
  `parse_request`, which swallows it as idle noise — an `AbortRequest` for an id without active request owes NO reply
  (`idleOwed_abort`; `idleOwed body` = the replies owed for management records in `body`, none if `body` are own Stdin
  records: `abort_unread_own_e2e`): no second EndRequest;
* the connection is REUSED: the task is parked in the next `parse_request` on an empty buffer (`STALL`), its parser
  having consumed exactly `serAll (body ++ [a])` — or it has returned because the peer closed (`RET`).

This is `unread_request_e2e_nofuel` (`Proofs/E2EUnread*`), whose proof never uses that the unread records form a
complete Stdin stream: only that they are idle noise within the buffer bound.  No size or fuel side condition.

NOT here: (2) the handler that reads through `fill_buf`/`consume` and gets `ConnectionAborted` (the abort machinery of
`Proofs/E2EAbort*` is for `readAll`; a `fill`-based handler needs its own handler-level simulation); a request WITHOUT
KEEP_CONN (`run_unreadN'` is for keep-alive requests).
-/
namespace Fcgi.C11U
open Fcgi Fcgi.Req Fcgi.Str Fcgi.Async Fcgi.Run Fcgi.Spec Fcgi.E2E Fcgi.C07E Fcgi.C07U

/-- an `AbortRequest` record (any padding) for an id without active request owes no reply -/
theorem owed_abort_none (mc : Nat) (a : Rec) (ha : a.rtype = 2) : owed none mc a = [] := by
  simp [owed, ha, RT.valid, RT.getValues, RT.beginRequest]

theorem idleOwed_abort (mc : Nat) (body : List Rec) (a : Rec) (ha : a.rtype = 2) :
    idleOwed mc (body ++ [a]) = idleOwed mc body := by
  simp [idleOwed, List.flatMap_append, owed_abort_none mc a ha]

/-- own Stdin records owe nothing either -/
theorem idleOwed_stdin (mc : Nat) (body : List Rec) (hb : ∀ r ∈ body, r.rtype = 5) : idleOwed mc body = [] := by
  induction body with
  | nil => rfl
  | cons r rs ih =>
    rw [idleOwed_cons, ih (fun x hx => hb x (List.mem_cons_of_mem _ hx))]
    simp [owed, hb r List.mem_cons_self, RT.valid, RT.getValues, RT.beginRequest]

/-- **C11 end to end: AbortRequest for a Responder whose handler does not read.** -/
theorem abort_unread_e2e {p : Preamble} {recs : List Rec} {body : List Rec} {a : Rec}
    {b mc : Nat} {data : Bytes} {st : ExitStatus} {hs : List HOp} {more : List (List HOp × Bool)}
    {t : Transport} {fuel : Nat}
    (hnr : NoRead hs data st)
    (hwf : WellFormedPreamble p recs) (hrole : p.role = 1) (hk : p.flags.toNat % 2 = 1)
    (hpairs : ∀ q ∈ p.pairs, (NV.enc q).length ≤ alignedBufsize b)
    (hnoise : NoiseFits (alignedBufsize b) recs)
    (hbody : ∀ r ∈ body, IdleNoise r) (hbn : NoiseFits (alignedBufsize b) body)
    (ha : a.rtype = 2) (haid : a.id = p.id) (hawf : a.WF)
    (hin : t.input = serAll recs ++ serAll (body ++ [a])) (hben : Ben t) (hev : hsCount t.events = 0)
    (hfuel : t.rd.length + t.wr.length + 1 ≤ fuel) :
    ∃ c' fin, runTask fuel (connS b mc t ((hs, true) :: more)) 0 none = (c', fin) ∧
      UnreadOutcome p (body ++ [a]) b mc
        (t.wlog ++ (owedPreamble p mc recs ++ streamRecords 6 p.id data ++ epilogue p.id st ++ idleOwed mc body))
        more t c' fin := by
  have haidle : IdleNoise a := ⟨hawf, fun hx => by rw [ha] at hx; exact absurd hx (by decide)⟩
  have hidle : ∀ r ∈ body ++ [a], IdleNoise r := by
    intro r hr
    rcases List.mem_append.1 hr with h | h
    · exact hbody r h
    · rw [List.mem_singleton.1 h]; exact haidle
  have hsn : NoiseFits (alignedBufsize b) (body ++ [a]) := by
    intro r hr hg
    rcases List.mem_append.1 hr with h | h
    · exact hbn r h hg
    · rw [List.mem_singleton.1 h] at hg
      have h1 : a.rtype.toNat = RT.getValues := hg.1
      rw [ha] at h1
      exact absurd h1 (by decide)
  have ok : UOKn (cfgU p recs (body ++ [a]) b mc data st hs t.wlog 0 more) :=
    ⟨hwf, hrole, hpairs, hnoise, rfl, rfl, rfl, rfl, hnr⟩
  obtain ⟨hns, hNF⟩ := idle_front dummy_wf b mc (fun q hq => by cases hq) (dummy_fits _) hidle hsn []
  have hst : UStage (cfgU p recs (body ++ [a]) b mc data st hs t.wlog 0 more) (connS b mc t ((hs, true) :: more)) :=
    .start (raw := []) rfl (by show [] ++ t.input = _; rw [hin]; rfl) (Nat.zero_le _) rfl hben rfl rfl rfl hev
  obtain ⟨c', fin, hrun, hkp, hem, _, _, _, hend⟩ := run_unreadN' ok hk (Z := serAll dummyRecs ++ []) hns hNF t.endMode [] _ 0 fuel
    hst rfl (fun s hs => by cases hs) rfl (by show ans t + 1 ≤ fuel; unfold ans; omega)
  have hLU : (cfgU p recs (body ++ [a]) b mc data st hs t.wlog 0 more).LU =
      t.wlog ++ (owedPreamble p mc recs ++ streamRecords 6 p.id data ++ epilogue p.id st) := by
    show ((t.wlog ++ owedPreamble p mc recs) ++ streamRecords 6 p.id data ++
      makeRequestEpilogue p.id st [RT.stdout, RT.stderr]) = _
    rw [epilogue_eq]; simp only [List.append_assoc]
  have hout : ∀ F, F ++ (serAll dummyRecs ++ []) = serAll (body ++ [a]) ++ (serAll dummyRecs ++ []) →
      (cfgU p recs (body ++ [a]) b mc data st hs t.wlog 0 more).LU ++ (run .header F mc).out =
      t.wlog ++ (owedPreamble p mc recs ++ streamRecords 6 p.id data ++ epilogue p.id st ++ idleOwed mc body) := by
    intro F hF
    rw [List.append_cancel_right hF, (run_idle_out mc (body ++ [a]) hidle).1, hLU, idleOwed_abort mc body a ha]
    simp only [List.append_assoc]
  refine ⟨c', fin, hrun, ⟨hkp.hs, hkp.ev _ List.mem_cons_self⟩, ?_, hkp.sc, ?_⟩
  · rcases hend with ⟨_, hp⟩ | ⟨_, hf⟩
    · obtain ⟨F, hF, _, _, hlg⟩ := hp.pst
      rw [hlg]; exact hout F hF
    · obtain ⟨F, hF, hlg⟩ := hf.log
      rw [hlg]; exact hout F hF
  · rcases hend with ⟨rfl, hp⟩ | ⟨rfl, hf⟩
    · obtain ⟨F, hF, hps, hph, _⟩ := hp.pst
      have hFe : F = serAll (body ++ [a]) := List.append_cancel_right hF
      subst hFe
      exact Or.inr ⟨hem.symm.trans hp.em, rfl, hph, hp.inp, hkp.mx, hps.stop, hps.ben⟩
    · exact Or.inl ⟨hem.symm.trans hf.em, rfl, hf.ph⟩

/-- … when the records in front of the abort are the request's own Stdin records: the log is
`owedPreamble ++ Stdout(data) ++ [Stdout∅][Stderr∅][EndRequest(id, st)]` and NOTHING else -/
theorem abort_unread_own_e2e {p : Preamble} {recs : List Rec} {body : List Rec} {a : Rec}
    {b mc : Nat} {data : Bytes} {st : ExitStatus} {hs : List HOp} {more : List (List HOp × Bool)}
    {t : Transport} {fuel : Nat}
    (hnr : NoRead hs data st)
    (hwf : WellFormedPreamble p recs) (hrole : p.role = 1) (hk : p.flags.toNat % 2 = 1)
    (hpairs : ∀ q ∈ p.pairs, (NV.enc q).length ≤ alignedBufsize b)
    (hnoise : NoiseFits (alignedBufsize b) recs)
    (hbody : ∀ r ∈ body, r.rtype = 5 ∧ r.WF)
    (ha : a.rtype = 2) (haid : a.id = p.id) (hawf : a.WF)
    (hin : t.input = serAll recs ++ serAll (body ++ [a])) (hben : Ben t) (hev : hsCount t.events = 0)
    (hfuel : t.rd.length + t.wr.length + 1 ≤ fuel) :
    ∃ c' fin, runTask fuel (connS b mc t ((hs, true) :: more)) 0 none = (c', fin) ∧
      UnreadOutcome p (body ++ [a]) b mc
        (t.wlog ++ (owedPreamble p mc recs ++ streamRecords 6 p.id data ++ epilogue p.id st)) more t c' fin := by
  have h1 : ∀ r ∈ body, IdleNoise r := fun r hr =>
    ⟨(hbody r hr).2, fun hx => by rw [(hbody r hr).1] at hx; exact absurd hx (by decide)⟩
  have h2 : NoiseFits (alignedBufsize b) body := fun r hr hg => by
    have h3 : r.rtype.toNat = RT.getValues := hg.1
    rw [(hbody r hr).1] at h3; exact absurd h3 (by decide)
  obtain ⟨c', fin, hrun, ho⟩ := abort_unread_e2e (st := st) (more := more) (fuel := fuel) hnr hwf hrole hk hpairs hnoise
    h1 h2 ha haid hawf hin hben hev hfuel
  rw [idleOwed_stdin mc body (fun r hr => (hbody r hr).1), List.append_nil] at ho
  exact ⟨c', fin, hrun, ho⟩


/-! ## Non-vacuity -/
namespace Example
open Fcgi.C01.Example Fcgi.C07E.Example

/-- the Stdin record `"ABC"` of the request, then `AbortRequest` for its id -/
def abBody : List Rec := [ { rtype := 5, id := 1, content := [65, 66, 67], pad := [0] } ]
def abRec : Rec := { rtype := 2, id := 1, content := [], pad := [] }

def abT : Transport :=
  { input := serAll recs ++ serAll (abBody ++ [abRec]), endMode := .pend,
    rd := [.n 10, .pending, .n 7, .all, .n 3], wr := [.n 5, .pending, .all, .n 1], fl := [] }

/-- the request of `Props/C07E2E` (KEEP_CONN, a preamble with noise), its Stdin record, an `AbortRequest` for it; the
handler writes `"hi"` and returns `Complete(5)` without reading: one handler start, the log is the preamble's replies,
the Stdout record `"hi"` and the epilogue with `EndRequest(1, Complete(5))` — and nothing else; the task is parked in the
next `parse_request`, which has swallowed the Stdin record and the `AbortRequest` -/
example : ∃ c', runTask 20 (connS 64 10 abT [(writeOnly [104, 105] (.complete 5), true)]) 0 none = (c', "STALL") ∧
    c'.env.tr.wlog = owedPreamble pre 10 recs ++ streamRecords 6 1 [104, 105] ++ epilogue 1 (.complete 5) ∧
    hsCount c'.env.tr.events = 1 ∧
    c'.phase = .parseReq (track 64 10 (serAll (abBody ++ [abRec]))) .reading ∧ c'.env.tr.input = [] := by
  obtain ⟨c', fin, hrun, ho⟩ := abort_unread_own_e2e (p := pre) (recs := recs) (body := abBody) (a := abRec)
    (b := 64) (mc := 10) (data := [104, 105]) (st := .complete 5) (hs := writeOnly [104, 105] (.complete 5))
    (more := []) (t := abT) (fuel := 20) (Or.inr rfl) recs_wf rfl (by decide) (pre_pairs_fit 64) (noise_fits 64)
    (fun r hr => by rw [List.mem_singleton.1 hr]; exact ⟨rfl, by decide, by decide, by decide⟩)
    rfl rfl ⟨by decide, by decide, by decide⟩ rfl ⟨by decide, by decide, rfl, by decide⟩ rfl (by decide)
  rcases ho.final with ⟨h, _⟩ | ⟨_, hfin, hph, hin, _⟩
  · exact absurd h (by decide)
  · subst hfin
    exact ⟨c', hrun, by rw [ho.log]; rfl, ho.one_handler.1, hph, hin⟩
end Example

end Fcgi.C11U
