import Fcgi.Proofs.E2ELedger
import Fcgi.Props.C07Echo
/-!
# C07 — the ECHO Responder end to end with ANY Stdin noise: the write-log ledger

`Props/C07Echo.echo_responder_e2e` needed `hquiet` (the noise inside Stdin owes no reply) because the read simulation
of `Proofs/E2EStr` (`RSt`: log = base ++ replies) cannot express handler records interleaved with parser replies.
`Proofs/E2ELedger` removes the restriction:

* the write log is write-only: `pollInput` (and `pollOutput`, `inLoop`, the transport's `read`/`writeV`) is UNIFORM in
  it (`E2E.pollInput_unif`: `∃ x t₀ …, ∀ a, pollInput … (relog t a) = (…, relog t₀ (a ++ x), …)`);
* so `pollInput_sim` may be run on the log with the handler's bytes removed and transported back:
  `E2E.RStL K L P H` = "the log is `L ++ w`, `w` an interleaving (`E2E.Ilv`) of the replies written so far and the
  handler bytes `H`, and `RSt` holds on the log `L ++ replies`"; `E2E.pollInput_simL` = `pollInput_sim` for `RStL`;
* the echo loop of `Proofs/E2EEcho` re-proved on `RStL` (`read1_stepL … run_echoL`), each `write_all` appending to `H`.

`echo_responder_e2e_noise` = `echo_responder_e2e` WITHOUT `hquiet`: over any preamble/stream segmentation and noise
(management records `GetValues`/unknown types, foreign ids, … anywhere inside Stdin, within the C06 buffer bound) and
any benign transport: one handler start, and the write log is

  `t.wlog ++ owedPreamble ++ w`, `Ilv w (owedStream id 5 mc srecs) (echoRecords id content ++ epilogue id st)`

i.e. (`ilv_segs`) `w` is the concatenation of segments, each a piece of the reply stream or a piece of the handler's
output, such that the reply pieces concatenate to exactly the replies owed for the Stdin noise, in order, and the
handler pieces to exactly one 1-byte Stdout record per content byte, in order, then the epilogue.  `ilv_length`,
`ilv_quiet` (no owed replies ⇒ `w` = the handler bytes: the old theorem is the special case).

NOT in the statement: that no reply RECORD is cut by a handler record.  (It holds on every run — the handler's writer
cannot take the mutex while the `Request` holds it for a partly written reply batch — but `Ilv`'s reply segments are
what single `poll_input` calls wrote, not whole records, and `RInv` does not say that the queued output starts at a
record boundary.)
-/
namespace Fcgi.C07W
open Fcgi Fcgi.Req Fcgi.Str Fcgi.Async Fcgi.Run Fcgi.Spec Fcgi.E2E Fcgi.C07E Fcgi.C07U Fcgi.C07B

/-! ## Reading the ledger -/

/-- an interleaving as a list of tagged segments (`true` = reply bytes, `false` = handler bytes) -/
theorem ilv_segs {w a h : Bytes} (hi : Ilv w a h) :
    ∃ segs : List (Bool × Bytes), w = (segs.map Prod.snd).flatten ∧
      ((segs.filter fun s => s.1).map Prod.snd).flatten = a ∧
      ((segs.filter fun s => !s.1).map Prod.snd).flatten = h := by
  induction hi with
  | nil => exact ⟨[], rfl, rfl, rfl⟩
  | rep x _ ih =>
    obtain ⟨segs, h1, h2, h3⟩ := ih
    exact ⟨segs ++ [(true, x)], by simp [h1], by simp [List.filter_append, h2], by simp [List.filter_append, h3]⟩
  | hnd x _ ih =>
    obtain ⟨segs, h1, h2, h3⟩ := ih
    exact ⟨segs ++ [(false, x)], by simp [h1], by simp [List.filter_append, h2], by simp [List.filter_append, h3]⟩

theorem ilv_length {w a h : Bytes} (hi : Ilv w a h) : w.length = a.length + h.length := by
  induction hi with
  | nil => rfl
  | rep x _ ih => simp only [List.length_append, ih]; omega
  | hnd x _ ih => simp only [List.length_append, ih]; omega

/-- nothing owed: the log is the handler's bytes -/
theorem ilv_quiet {w a h : Bytes} (hi : Ilv w a h) (ha : a = []) : w = h := by
  induction hi with
  | nil => rfl
  | rep x _ ih =>
    obtain ⟨h1, h2⟩ := List.append_eq_nil_iff.1 ha
    rw [h2, List.append_nil]; exact ih h1
  | hnd x _ ih => rw [ih ha]

/-- the handler writes nothing: the log is the replies -/
theorem ilv_silent {w a h : Bytes} (hi : Ilv w a h) (hh : h = []) : w = a := by
  induction hi with
  | nil => rfl
  | rep x _ ih => rw [ih hh]
  | hnd x _ ih =>
    obtain ⟨h1, h2⟩ := List.append_eq_nil_iff.1 hh
    rw [h2, List.append_nil]; exact ih h1

structure EchoNoiseOutcome (p : Preamble) (recs : List Rec) (content : Bytes) (srecs : List Rec) (pad : Bytes) (res : UInt8)
    (b mc : Nat) (st : ExitStatus) (more : List (List HOp × Bool)) (t : Transport) (c' : Conn) (fin : String) : Prop where
  one_handler : hsCount c'.env.tr.events = 1 ∧ startEvent p.request ∈ c'.env.tr.events
  log : ∃ w, c'.env.tr.wlog = t.wlog ++ owedPreamble p mc recs ++ w ∧
    Ilv w (owedStream p.id 5 mc srecs) (echoRecords p.id content ++ epilogue p.id st)
  scripts : c'.scripts = more
  final : (p.flags.toNat % 2 = 0 ∧ fin = "RET" ∧ c'.phase = .finished) ∨
          (p.flags.toNat % 2 = 1 ∧ t.endMode = .eof ∧ fin = "RET" ∧ c'.phase = .finished) ∨
          (p.flags.toNat % 2 = 1 ∧ t.endMode = .pend ∧ fin = "STALL" ∧
            c'.phase = .parseReq (track (alignedBufsize b) mc (trec 5 p.id pad res).ser) .reading ∧
            c'.env.tr.input = [] ∧ c'.env.mutex = none ∧ c'.stop = false ∧ Ben c'.env.tr)

theorem led_eq {p : Preamble} {recs : List Rec} {content : Bytes} {body : List Rec} {pad : Bytes} {res : UInt8}
    {b mc : Nat} {st : ExitStatus} {L0 : Bytes} {h : Nat} {more : List (List HOp × Bool)} {Lf : Bytes}
    (hl : Led (cfgE p recs content body pad res b mc st L0 h more) Lf) :
    ∃ w, Lf = L0 ++ owedPreamble p mc recs ++ w ∧
      Ilv w (owedStream p.id 5 mc body) (echoRecords p.id content ++ epilogue p.id st) := by
  obtain ⟨w, h1, h2⟩ := hl
  refine ⟨w, h1, ?_⟩
  have h3 : Ilv w (owedStream p.id 5 mc body)
      (outOf p.id (echoW content) ++ makeRequestEpilogue p.id st [RT.stdout, RT.stderr]) := h2
  rw [(C17.epilogue_spec p.id st _).1, outOf_echoW] at h3
  exact h3

/-- **C07 end to end: the echo Responder, any Stdin noise** (`echo_responder_e2e` without `hquiet`). -/
theorem echo_responder_e2e_noise {p : Preamble} {recs : List Rec} {content : Bytes} {srecs : List Rec}
    {b mc : Nat} {st : ExitStatus} {more : List (List HOp × Bool)} {t : Transport} {fuel : Nat}
    (hwf : WellFormedPreamble p recs) (hrole : p.role = 1)
    (hpairs : ∀ q ∈ p.pairs, (NV.enc q).length ≤ alignedBufsize b)
    (hnoise : NoiseFits (alignedBufsize b) recs)
    (hs : StreamRecs p.id 5 content srecs) (hsn : NoiseFits (alignedBufsize b) srecs)
    (hin : t.input = serAll recs ++ serAll srecs) (hben : Ben t) (hev : hsCount t.events = 0)
    (hfuel : t.rd.length + t.wr.length + 1 ≤ fuel) :
    ∃ c' fin pad res,
      runTask fuel (connS b mc t ((echoScript content st, true) :: more)) 0 none = (c', fin) ∧
      EchoNoiseOutcome p recs content srecs pad res b mc st more t c' fin := by
  obtain ⟨body, pad, res, hpad, hbody, hsrecs⟩ := StreamRecs.split hs
  have hid := (pid_of_wf hwf).2
  have hsb : NoiseFits (alignedBufsize b) body := fun r hr => hsn r (by rw [hsrecs]; simp [hr])
  have hOt : owedStream p.id 5 mc srecs = owedStream p.id 5 mc body := by
    rw [hsrecs, owedStream_append, owedStream_term p.id 5 mc _ rfl, List.append_nil]
  have ok : EOKL (cfgE p recs content body pad res b mc st t.wlog 0 more) :=
    ⟨hwf, hrole, hpairs, hnoise, hbody, hsb, hpad, rfl, rfl, rfl, rfl⟩
  have htwf : (trec 5 p.id pad res).WF := ⟨hid, by simp [trec], hpad⟩
  have hidle : ∀ e ∈ [trec 5 p.id pad res], IdleNoise e := by
    intro e he
    rw [List.mem_singleton.1 he]
    exact ⟨htwf, fun hx => absurd hx (by show (5 : UInt8).toNat ≠ RT.beginRequest; decide)⟩
  have hfit : NoiseFits (alignedBufsize b) [trec 5 p.id pad res] := by
    intro e he hg
    rw [List.mem_singleton.1 he] at hg
    exact absurd hg.1 (by show (5 : UInt8).toNat ≠ RT.getValues; decide)
  obtain ⟨hns, hNF⟩ := idle_front dummy_wf b mc (fun q hq => by cases hq) (dummy_fits _) hidle hfit []
  rw [C02.serAll_single] at hns hNF
  have hst : FStage (cfgE p recs content body pad res b mc st t.wlog 0 more)
      (connS b mc t ((echoScript content st, true) :: more)) :=
    .start (raw := []) rfl (by
      show [] ++ t.input = _
      rw [hin, hsrecs, C02.serAll_append, C02.serAll_single]; rfl) (Nat.zero_le _) rfl hben rfl rfl rfl hev
  obtain ⟨c', fin, hrun, hres⟩ := run_echoL ok (Z := serAll dummyRecs ++ []) hns hNF
    t.endMode [] _ 0 fuel hst rfl (fun s hs => by cases hs) rfl (by show ans t + 1 ≤ fuel; unfold ans; omega)
  have hro := (run_idle_out mc [trec 5 p.id pad res] hidle).1
  rw [C02.serAll_single] at hro
  have hio : idleOwed mc [trec 5 p.id pad res] = [] := by
    simp [idleOwed, owed, trec, RT.valid, RT.getValues, RT.beginRequest]
  rcases hres with ⟨Lf, ⟨hkp, hled⟩, hk', hem, _, _, _, hend⟩ | ⟨hfin, ⟨Lf, hled, hfu⟩, _, _⟩
  · obtain ⟨w, hLf, hil⟩ := led_eq hled
    rw [← hOt] at hil
    have hout : ∀ F, F ++ (serAll dummyRecs ++ []) = (trec 5 p.id pad res).ser ++ (serAll dummyRecs ++ []) →
        Lf ++ (run .header F mc).out = t.wlog ++ owedPreamble p mc recs ++ w := by
      intro F hF
      rw [List.append_cancel_right hF, hro, hio, List.append_nil, hLf]
    refine ⟨c', fin, pad, res, hrun, ⟨hk'.hs, hk'.ev _ List.mem_cons_self⟩, ⟨w, ?_, hil⟩, hk'.sc, ?_⟩
    · rcases hend with ⟨_, hp⟩ | ⟨_, hf⟩
      · obtain ⟨F, hF, _, _, hlg⟩ := hp.pst
        exact hlg.trans (hout F hF)
      · obtain ⟨F, hF, hlg⟩ := hf.log
        exact hlg.trans (hout F hF)
    · rcases hend with ⟨rfl, hp⟩ | ⟨rfl, hf⟩
      · obtain ⟨F, hF, hps, hph, _⟩ := hp.pst
        have hFe : F = (trec 5 p.id pad res).ser := List.append_cancel_right hF
        subst hFe
        exact Or.inr (Or.inr ⟨hkp, hem.symm.trans hp.em, rfl, hph, hp.inp, hk'.mx, hps.stop, hps.ben⟩)
      · exact Or.inr (Or.inl ⟨hkp, hem.symm.trans hf.em, rfl, hf.ph⟩)
  · obtain ⟨w, hLf, hil⟩ := led_eq hled
    rw [← hOt] at hil
    exact ⟨c', fin, pad, res, hrun, ⟨hfu.ev.1, hfu.ev.2⟩, ⟨w, by rw [hfu.log, hLf], hil⟩, hfu.sc,
      Or.inl ⟨hfu.nokeep, hfin, hfu.ph⟩⟩

/-- the old theorem's log is the special case of nothing owed -/
theorem echo_noise_quiet {p : Preamble} {recs : List Rec} {content : Bytes} {srecs : List Rec} {pad : Bytes} {res : UInt8}
    {b mc : Nat} {st : ExitStatus} {more : List (List HOp × Bool)} {t : Transport} {c' : Conn} {fin : String}
    (h : EchoNoiseOutcome p recs content srecs pad res b mc st more t c' fin)
    (hquiet : owedStream p.id 5 mc srecs = []) :
    c'.env.tr.wlog = t.wlog ++ echoLog p recs mc content st := by
  obtain ⟨w, h1, h2⟩ := h.log
  rw [h1, ilv_quiet h2 hquiet]
  simp [echoLog, List.append_assoc]

/-! ## Non-vacuity -/
namespace ExampleEcho2
open Fcgi.C01.Example Fcgi.C07E.Example

/-- Stdin `"AB"`, then a management `GetValues(FCGI_MAX_CONNS)` record INSIDE the stream, then Stdin `"C"`, an
unknown-type record, the terminator (the shape of the replay case `c07e-getvalues-*`) -/
def gS : List Rec :=
  [ { rtype := 5, id := 1, content := [65, 66], pad := [0, 0, 0, 0, 0, 0] },
    { rtype := 9, id := 0, content := NV.enc (Vars.nameMaxConns, []), pad := [] },
    { rtype := 5, id := 1, content := [67], pad := [0] },
    { rtype := 77, id := 3, content := [1, 2], pad := [] },
    { rtype := 5, id := 1, content := [], pad := [] } ]

theorem gS_ok : StreamRecs 1 5 [65, 66, 67] gS := by
  refine .chunk (content := [67]) [65, 66] [0, 0, 0, 0, 0, 0] 0 (by decide) (by decide) ?_
  refine .noise _ ⟨⟨by decide, by decide +kernel, by decide⟩, by decide⟩ ?_
  refine .chunk (content := []) [67] [0] 0 (by decide) (by decide) ?_
  refine .noise _ ⟨⟨by decide, by decide, by decide⟩, by decide⟩ ?_
  exact .term [] 0 (by decide)

theorem gS_fits : NoiseFits (alignedBufsize 64) gS := by
  refine noiseFits_of_content (fun r hr _ _ => ?_)
  simp only [gS, List.mem_cons, List.not_mem_nil, or_false] at hr
  rcases hr with rfl | rfl | rfl | rfl | rfl <;> decide +kernel

def gT : Transport :=
  { input := serAll recs ++ serAll gS, endMode := .pend,
    rd := [.n 10, .pending, .n 7, .n 40, .pending, .n 3, .all], wr := [.n 5, .pending, .all, .n 1, .pending], fl := [] }

/-- replies ARE owed here -/
theorem gS_owes : owedStream 1 5 10 gS ≠ [] := by decide +kernel

example : ∃ c' fin w, runTask 20 (connS 64 10 gT [(echoScript [65, 66, 67] (.complete 0), true)]) 0 none = (c', fin) ∧
    c'.env.tr.wlog = owedPreamble pre 10 recs ++ w ∧
    Ilv w (owedStream 1 5 10 gS) (echoRecords 1 [65, 66, 67] ++ epilogue 1 (.complete 0)) ∧
    w.length = (owedStream 1 5 10 gS).length + (echoRecords 1 [65, 66, 67] ++ epilogue 1 (.complete 0)).length ∧
    hsCount c'.env.tr.events = 1 := by
  obtain ⟨c', fin, pad, res, hrun, ho⟩ := echo_responder_e2e_noise (p := pre) (recs := recs) (content := [65, 66, 67])
    (srecs := gS) (b := 64) (mc := 10) (st := .complete 0) (more := []) (t := gT) (fuel := 20)
    recs_wf rfl (pre_pairs_fit 64) (noise_fits 64) gS_ok gS_fits rfl ⟨by decide, by decide, rfl, by decide⟩ rfl (by decide)
  obtain ⟨w, h1, h2⟩ := ho.log
  exact ⟨c', fin, w, hrun, by rw [h1]; rfl, h2, ilv_length h2, ho.one_handler.1⟩
end ExampleEcho2

end Fcgi.C07W
