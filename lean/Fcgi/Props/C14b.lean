import Fcgi.Model.Runner
/-!
# C14b — `WaitGroupFuture` (the `Runner::shutdown` future) completes after the last token was
dropped, never earlier, and its task is woken for that completion under every interleaving

Model: `Fcgi.Runner.WG` / `wgStep` (`Fcgi/Model/Runner.lean`), a *step-level* model of
`WaitGroupFuture::poll` (`Weak::upgrade` / `AtomicWaker::register` / drop of the temporary `Arc` /
`Drop for WaitGroupInner` = `waker.wake()`) interleaved with `TaskToken` drops (`fetch_sub`, and — for
the one that hit zero — `waker.wake()`).

All statements quantify over **all interleavings**: `Reach n g` = `g` is reachable from `WG.init n`
by any finite sequence of enabled `WStep`s (any `n`, any schedule).
-/
namespace Fcgi.C14b
open Fcgi.Runner

/-! ## Reachability -/

/-- run a schedule; `none` if some step is not enabled -/
def runSteps (g : WG) : List WStep → Option WG
  | [] => some g
  | s :: ss => (wgStep g s).bind (fun g' => runSteps g' ss)

/-- states reachable from `WG.init n` under any interleaving of enabled steps -/
inductive Reach (n : Nat) : WG → Prop
  | init : Reach n (WG.init n)
  | step {g g' : WG} {s : WStep} : Reach n g → wgStep g s = some g' → Reach n g'

theorem reach_runSteps {n : Nat} {g g' : WG} (hg : Reach n g) :
    ∀ {ss : List WStep}, runSteps g ss = some g' → Reach n g' := by
  intro ss
  induction ss generalizing g with
  | nil => intro h; simp [runSteps] at h; subst h; exact hg
  | cons s ss ih =>
    intro h
    simp only [runSteps] at h
    cases h1 : wgStep g s with
    | none => simp [h1] at h
    | some g1 =>
      simp [h1] at h
      exact ih (Reach.step hg h1) h

theorem runSteps_append (g : WG) (ss ts : List WStep) :
    runSteps g (ss ++ ts) = (runSteps g ss).bind (fun g' => runSteps g' ts) := by
  induction ss generalizing g with
  | nil => simp [runSteps]
  | cons s ss ih =>
    simp only [List.cons_append, runSteps]
    cases wgStep g s with
    | none => rfl
    | some g1 => simp [ih]

/-- `Reach n` = the end states of all schedules (step lists all of whose steps are enabled) -/
theorem reach_iff {n : Nat} {g : WG} : Reach n g ↔ ∃ ss, runSteps (WG.init n) ss = some g := by
  constructor
  · intro h
    induction h with
    | init => exact ⟨[], rfl⟩
    | @step g g' s _ hs ih =>
      obtain ⟨ss, hss⟩ := ih
      exact ⟨ss ++ [s], by simp [runSteps_append, hss, runSteps, hs]⟩
  · rintro ⟨ss, hss⟩
    exact reach_runSteps Reach.init hss

/-! ## The invariant -/

/-- number of tokens that still exist (hold a strong reference) -/
def alive (g : WG) : Nat := g.tokens.count .alive
/-- number of tokens whose `fetch_sub` hit zero and whose `wake()` has not run yet -/
def zeros (g : WG) : Nat := g.tokens.count .zero
/-- the poller's temporary `Arc` (between `upgrade` and its drop) -/
def tmp (pc : PollerPc) : Nat := if pc = .upgraded ∨ pc = .registered then 1 else 0
/-- the poller is the party that took the count to zero and has not run `wake()` yet -/
def pz (pc : PollerPc) : Nat := if pc = .dropped0 then 1 else 0

/-- all tokens dropped completely -/
def AllGone (g : WG) : Prop := ∀ t ∈ g.tokens, t = DropPc.gone

structure WInv (g : WG) : Prop where
  /-- the strong count is exactly: live tokens + the poller's temporary -/
  strong_eq : g.strong = alive g + tmp g.pc
  /-- at most one party ever is "the one that hit zero" -/
  zero_le : zeros g + pz g.pc ≤ 1
  /-- … and while it has not run `wake()`: the count is zero, `wake()` did not run -/
  zero_strong : zeros g + pz g.pc = 1 → g.strong = 0 ∧ g.wakeRan = false
  /-- `Drop for WaitGroupInner` ran only after the count hit zero, by the unique zero party -/
  wakeRan_done : g.wakeRan = true → g.strong = 0 ∧ zeros g + pz g.pc = 0
  /-- count zero ⇒ the final `wake()` is pending or has run (or there never was a token) -/
  strong0 : g.strong = 0 →
    zeros g + pz g.pc = 1 ∨ g.wakeRan = true ∨ (g.tokens = [] ∧ g.lastPoll ≠ some false)
  reg_waker : g.pc = .registered → g.waker = true
  waker_notRan : g.waker = true → g.wakeRan = false
  /-- a poll that registered (and, later, returned Pending): its waker is still registered, or was woken -/
  pending_woken :
    (g.pc = .registered ∨ g.pc = .dropped0 ∨ (g.pc = .idle ∧ g.lastPoll = some false)) →
      g.waker = true ∨ g.wokenSinceRegister = true
  /-- Ready was only ever returned at count zero (and the count never leaves zero) -/
  ready_zero : g.lastPoll = some true → g.strong = 0

/-! ### list lemmas -/

theorem count_set' {l : List DropPc} {i : Nat} {a b c : DropPc} (h : l[i]? = some a) :
    (l.set i b).count c + (if a = c then 1 else 0) = l.count c + (if b = c then 1 else 0) := by
  induction l generalizing i with
  | nil => simp at h
  | cons x l ih =>
    cases i with
    | zero =>
      simp at h; subst h
      simp only [List.set_cons_zero, List.count_cons, beq_iff_eq]
      omega
    | succ i =>
      simp at h
      have := ih h
      simp only [List.set_cons_succ, List.count_cons]
      omega

theorem allGone_iff (g : WG) : AllGone g ↔ alive g = 0 ∧ zeros g = 0 := by
  unfold AllGone alive zeros
  rw [List.count_eq_zero, List.count_eq_zero]
  constructor
  · intro h
    constructor
    · intro hm; have := h _ hm; cases this
    · intro hm; have := h _ hm; cases this
  · intro ⟨h1, h2⟩ t ht
    cases t with
    | alive => exact absurd ht h1
    | zero => exact absurd ht h2
    | gone => rfl

theorem set_nil_iff {l : List DropPc} {i : Nat} {b : DropPc} : l.set i b = [] ↔ l = [] := by
  cases l with
  | nil => simp
  | cons x l => cases i <;> simp

/-! ### initial state and preservation -/

theorem winv_init (n : Nat) : WInv (WG.init n) := by
  have ha : alive (WG.init n) = n := by simp [alive, WG.init]
  have hz : zeros (WG.init n) = 0 := by simp [zeros, WG.init, List.count_replicate]
  constructor <;> (try simp only [ha, hz]) <;> (try simp [WG.init, tmp, pz])

theorem winv_step {g g' : WG} {s : WStep} (hi : WInv g) (h : wgStep g s = some g') : WInv g' := by
  obtain ⟨h1, h2, h3, h4, h5, h6, h7, h8, h9⟩ := hi
  obtain ⟨strong, tokens, pc, waker, wakeRan, wsr, lastPoll⟩ := g
  cases s with
  | pollUpgrade =>
    simp only [wgStep] at h
    cases pc <;> simp at h
    by_cases hs : strong = 0
    · simp [hs] at h; subst h
      constructor <;> simp only [alive, zeros, tmp, pz] at * <;> grind
    · simp [hs] at h; subst h
      constructor <;> simp only [alive, zeros, tmp, pz] at * <;> grind
  | pollRegister =>
    simp only [wgStep] at h
    cases pc <;> simp at h
    subst h
    constructor <;> simp only [alive, zeros, tmp, pz] at * <;> grind
  | pollDropTemp =>
    simp only [wgStep] at h
    cases pc <;> simp at h
    by_cases hs1 : strong = 1
    · simp [hs1] at h; subst h
      constructor <;> simp only [alive, zeros, tmp, pz] at * <;> grind
    · simp [hs1] at h; subst h
      constructor <;> simp only [alive, zeros, tmp, pz] at * <;> grind
  | pollWake =>
    simp only [wgStep] at h
    cases pc <;> simp at h
    subst h
    constructor <;> simp only [alive, zeros, tmp, pz, wakeNow] at * <;> grind
  | tokenDec i =>
    simp only [wgStep] at h
    split at h
    · rename_i ht
      by_cases hs1 : strong = 1
      · simp [hs1] at h; subst h
        have ca := count_set' (b := DropPc.zero) (c := DropPc.alive) ht
        have cz := count_set' (b := DropPc.zero) (c := DropPc.zero) ht
        have hn := set_nil_iff (l := tokens) (i := i) (b := DropPc.zero)
        simp at ca cz
        constructor <;> simp only [alive, zeros, tmp, pz] at * <;> grind
      · simp [hs1] at h; subst h
        have ca := count_set' (b := DropPc.gone) (c := DropPc.alive) ht
        have cz := count_set' (b := DropPc.gone) (c := DropPc.zero) ht
        have hn := set_nil_iff (l := tokens) (i := i) (b := DropPc.gone)
        simp at ca cz
        constructor <;> simp only [alive, zeros, tmp, pz] at * <;> grind
    · simp at h
  | tokenWake i =>
    simp only [wgStep] at h
    split at h
    · rename_i ht
      simp at h; subst h
      have ca := count_set' (b := DropPc.gone) (c := DropPc.alive) ht
      have cz := count_set' (b := DropPc.gone) (c := DropPc.zero) ht
      have hn := set_nil_iff (l := tokens) (i := i) (b := DropPc.gone)
      simp at ca cz
      constructor <;> simp only [alive, zeros, tmp, pz, wakeNow] at * <;> grind
    · simp at h

/-- **6.** The invariant holds in every reachable state. -/
theorem reach_inv {n : Nat} {g : WG} (h : Reach n g) : WInv g := by
  induction h with
  | init => exact winv_init n
  | step _ hs ih => exact winv_step ih hs

/-! ## 7. Never early -/

/-- In any reachable state in which a poll has returned Ready, no token exists: the future never
completes while a token is alive.  (`pollUpgrade` returns Ready only at `strong = 0`, and the strong
count is `#alive + temporary`.) -/
theorem never_early {n : Nat} {g : WG} (h : Reach n g) (hr : g.lastPoll = some true) :
    ∀ t ∈ g.tokens, t ≠ DropPc.alive := by
  have hi := reach_inv h
  have h0 := hi.ready_zero hr
  have h1 := hi.strong_eq
  have : alive g = 0 := by omega
  unfold alive at this
  rw [List.count_eq_zero] at this
  intro t ht he; subst he; exact this ht

/-- The same at the step itself: a `pollUpgrade` that returns Ready (the poller stays `.idle`) happens
only in a state without live tokens. -/
theorem never_early_step {n : Nat} {g g' : WG} (h : Reach n g)
    (hs : wgStep g .pollUpgrade = some g') (hready : g'.pc = .idle) :
    (∀ t ∈ g.tokens, t ≠ DropPc.alive) ∧ g'.lastPoll = some true := by
  have hi := reach_inv h
  simp only [wgStep] at hs
  split at hs
  · simp at hs
  · split at hs
    · rename_i hz
      simp at hs hz; subst hs
      refine ⟨?_, rfl⟩
      have h1 := hi.strong_eq
      have : alive g = 0 := by omega
      unfold alive at this
      rw [List.count_eq_zero] at this
      intro t ht he; subst he; exact this ht
    · simp at hs; subst hs; simp at hready

/-! ## 8. Woken for completion -/

/-- In any reachable state in which all tokens are completely dropped, the poller is outside `poll`,
and its most recent poll returned Pending: the waker registered by that poll has been invoked after
its registration — whatever the interleaving (last drop before `upgrade`, between `upgrade` and
`register`, between `register` and the drop of the temporary — then the poller's own temporary is
the last reference and `pollWake` wakes the just-registered waker —, or after the poll). -/
theorem woken_for_completion {n : Nat} {g : WG} (h : Reach n g) (hg : AllGone g)
    (hpc : g.pc = .idle) (hp : g.lastPoll = some false) : g.wokenSinceRegister = true := by
  have hi := reach_inv h
  obtain ⟨ha, hz⟩ := (allGone_iff g).mp hg
  have hs : g.strong = 0 := by have := hi.strong_eq; simp [hpc, tmp] at this; omega
  have hran : g.wakeRan = true := by
    rcases hi.strong0 hs with h | h | h
    · simp [hz, hpc, pz] at h
    · exact h
    · exact absurd hp h.2
  rcases hi.pending_woken (Or.inr (Or.inr ⟨hpc, hp⟩)) with h | h
  · have := hi.waker_notRan h; simp [hran] at this
  · exact h

/-- Companion: the wake-up is never lost *before* completion either — as long as the poller that got
Pending has not been woken, its waker is still registered and the final `wake()` has not run. -/
theorem pending_waker_armed {n : Nat} {g : WG} (h : Reach n g)
    (hpc : g.pc = .idle) (hp : g.lastPoll = some false) (hw : g.wokenSinceRegister = false) :
    g.waker = true ∧ g.wakeRan = false := by
  have hi := reach_inv h
  rcases hi.pending_woken (Or.inr (Or.inr ⟨hpc, hp⟩)) with h | h
  · exact ⟨h, hi.waker_notRan h⟩
  · simp [hw] at h

/-- `Drop for WaitGroupInner` runs at most once and only when everything is gone. -/
theorem wakeRan_allGone {n : Nat} {g : WG} (h : Reach n g) (hr : g.wakeRan = true) :
    AllGone g ∧ g.strong = 0 ∧ g.pc ≠ .dropped0 := by
  have hi := reach_inv h
  obtain ⟨h0, hz⟩ := hi.wakeRan_done hr
  have h1 := hi.strong_eq
  refine ⟨(allGone_iff g).mpr ⟨by omega, by omega⟩, h0, ?_⟩
  intro hpc; simp [hpc, pz] at hz

/-! ## 9. Progress -/

/-- The poller always has exactly its next step enabled. -/
theorem poller_enabled (g : WG) : ∃ s g', wgStep g s = some g' ∧
    (s = .pollUpgrade ∨ s = .pollRegister ∨ s = .pollDropTemp ∨ s = .pollWake) := by
  obtain ⟨strong, tokens, pc, waker, wakeRan, wsr, lastPoll⟩ := g
  cases pc
  · by_cases hs : strong = 0
    · exact ⟨.pollUpgrade, _, by simp [wgStep, hs]; rfl, by simp⟩
    · exact ⟨.pollUpgrade, _, by simp [wgStep, hs]; rfl, by simp⟩
  · exact ⟨.pollRegister, _, by simp [wgStep]; rfl, by simp⟩
  · by_cases hs : strong = 1
    · exact ⟨.pollDropTemp, _, by simp [wgStep, hs]; rfl, by simp⟩
    · exact ⟨.pollDropTemp, _, by simp [wgStep, hs]; rfl, by simp⟩
  · exact ⟨.pollWake, _, by simp [wgStep]; rfl, by simp⟩

/-- Every token that is not completely gone has its next step enabled. -/
theorem token_enabled (g : WG) (i : Nat) :
    (g.tokens[i]? = some .alive → ∃ g', wgStep g (.tokenDec i) = some g') ∧
    (g.tokens[i]? = some .zero → ∃ g', wgStep g (.tokenWake i) = some g') := by
  constructor
  · intro h
    by_cases hs : g.strong = 1
    · exact ⟨_, by simp [wgStep, h, hs]; rfl⟩
    · exact ⟨_, by simp [wgStep, h, hs]; rfl⟩
  · intro h
    exact ⟨_, by simp [wgStep, h]; rfl⟩

/-- No deadlock: unless all tokens are gone and the poller is idle, some step *other than starting a
fresh poll* is enabled. -/
theorem progress (g : WG) (h : ¬ (AllGone g ∧ g.pc = .idle)) :
    ∃ s g', s ≠ WStep.pollUpgrade ∧ wgStep g s = some g' := by
  by_cases hpc : g.pc = .idle
  · have hng : ¬ AllGone g := fun hg => h ⟨hg, hpc⟩
    unfold AllGone at hng
    simp only [Classical.not_forall] at hng
    obtain ⟨t, ht, hne⟩ := hng
    obtain ⟨i, hi, rfl⟩ := List.mem_iff_getElem.mp ht
    have hi' : g.tokens[i]? = some g.tokens[i] := by simp [hi]
    cases htk : g.tokens[i] with
    | alive =>
      obtain ⟨g', hg'⟩ := (token_enabled g i).1 (by rw [hi', htk])
      exact ⟨_, g', by simp, hg'⟩
    | zero =>
      obtain ⟨g', hg'⟩ := (token_enabled g i).2 (by rw [hi', htk])
      exact ⟨_, g', by simp, hg'⟩
    | gone => exact absurd htk hne
  · obtain ⟨s, g', hs, hk⟩ := poller_enabled g
    refine ⟨s, g', ?_, hs⟩
    intro he; subst he
    simp only [wgStep] at hs
    simp [hpc] at hs

/-- Every step other than starting a fresh poll strictly decreases a measure, so from any state the
tokens' and the poller's pending steps run out: the system reaches `AllGone ∧ pc = idle` after at
most `measure g` such steps. -/
def measure (g : WG) : Nat :=
  2 * g.tokens.count .alive + g.tokens.count .zero +
    (match g.pc with | .idle => 0 | .upgraded => 3 | .registered => 2 | .dropped0 => 1)

theorem measure_decreases {g g' : WG} {s : WStep} (hne : s ≠ .pollUpgrade)
    (h : wgStep g s = some g') : measure g' < measure g := by
  obtain ⟨strong, tokens, pc, waker, wakeRan, wsr, lastPoll⟩ := g
  cases s with
  | pollUpgrade => exact absurd rfl hne
  | pollRegister =>
    simp only [wgStep] at h
    cases pc <;> simp at h
    subst h; simp [measure]
  | pollDropTemp =>
    simp only [wgStep] at h
    cases pc <;> simp at h
    split at h <;> (simp at h; subst h; simp [measure])
  | pollWake =>
    simp only [wgStep] at h
    cases pc <;> simp at h
    subst h; simp [measure, wakeNow]
  | tokenDec i =>
    simp only [wgStep] at h
    split at h
    · rename_i ht
      split at h <;> simp at h <;> subst h
      · have ca := count_set' (b := DropPc.zero) (c := DropPc.alive) ht
        have cz := count_set' (b := DropPc.zero) (c := DropPc.zero) ht
        simp at ca cz
        simp only [measure]; omega
      · have ca := count_set' (b := DropPc.gone) (c := DropPc.alive) ht
        have cz := count_set' (b := DropPc.gone) (c := DropPc.zero) ht
        simp at ca cz
        simp only [measure]; omega
    · simp at h
  | tokenWake i =>
    simp only [wgStep] at h
    split at h
    · rename_i ht
      simp at h; subst h
      have ca := count_set' (b := DropPc.gone) (c := DropPc.alive) ht
      have cz := count_set' (b := DropPc.gone) (c := DropPc.zero) ht
      simp at ca cz
      simp only [measure, wakeNow]; omega
    · simp at h

/-- After all tokens are gone, a fresh `pollUpgrade` returns Ready. -/
theorem ready_after_all_gone {n : Nat} {g : WG} (h : Reach n g) (hg : AllGone g)
    (hpc : g.pc = .idle) : wgStep g .pollUpgrade = some { g with lastPoll := some true } := by
  have hi := reach_inv h
  obtain ⟨ha, hz⟩ := (allGone_iff g).mp hg
  have hs : g.strong = 0 := by have := hi.strong_eq; simp [hpc, tmp] at this; omega
  simp [wgStep, hpc, hs]

/-- … and it does so *only* then (with `never_early_step`): completion ⇔ no live token. -/
theorem ready_iff_no_alive {n : Nat} {g : WG} (h : Reach n g) (hpc : g.pc = .idle) :
    wgStep g .pollUpgrade = some { g with lastPoll := some true } ↔
      ∀ t ∈ g.tokens, t ≠ DropPc.alive := by
  have hi := reach_inv h
  have h1 := hi.strong_eq
  simp [hpc, tmp] at h1
  constructor
  · intro hs
    exact (never_early_step h hs hpc).1
  · intro hna
    have : alive g = 0 := by
      unfold alive; rw [List.count_eq_zero]; intro hm; exact hna _ hm rfl
    simp [wgStep, hpc, h1, this]

/-! ## The critical schedules for `n = 1`, written out -/

/-- observable summary: (all gone, pc, wakeRan, wokenSinceRegister, lastPoll) -/
def obs (g : WG) : List DropPc × PollerPc × Bool × Bool × Option Bool :=
  (g.tokens, g.pc, g.wakeRan, g.wokenSinceRegister, g.lastPoll)

/-- (a) the poll completes (Pending) before the last drop: the token's `wake()` wakes the poller,
the next poll is Ready -/
example : (runSteps (WG.init 1)
    [.pollUpgrade, .pollRegister, .pollDropTemp, .tokenDec 0, .tokenWake 0]).map obs
    = some ([.gone], .idle, true, true, some false) := by decide
example : (runSteps (WG.init 1)
    [.pollUpgrade, .pollRegister, .pollDropTemp, .tokenDec 0, .tokenWake 0, .pollUpgrade]).map obs
    = some ([.gone], .idle, true, true, some true) := by decide

/-- (b) the last drop lands between `upgrade` and `register`: the token's `fetch_sub` does not hit
zero (2 → 1), the poller's temporary is the last reference; `pollWake` wakes the waker that was
registered in between -/
example : (runSteps (WG.init 1)
    [.pollUpgrade, .tokenDec 0, .pollRegister, .pollDropTemp, .pollWake]).map obs
    = some ([.gone], .idle, true, true, some false) := by decide
/-- … and the token has no `wake()` of its own in this schedule -/
example : runSteps (WG.init 1) [.pollUpgrade, .tokenDec 0, .tokenWake 0] = none := by decide

/-- (c) the last drop lands between `register` and the drop of the temporary -/
example : (runSteps (WG.init 1)
    [.pollUpgrade, .pollRegister, .tokenDec 0, .pollDropTemp, .pollWake]).map obs
    = some ([.gone], .idle, true, true, some false) := by decide

/-- (d) the last drop's `fetch_sub` precedes the poll, its `wake()` comes after: `upgrade` already
fails, the poll is Ready without any wake-up being needed -/
example : (runSteps (WG.init 1) [.tokenDec 0, .pollUpgrade, .tokenWake 0]).map obs
    = some ([.gone], .idle, true, false, some true) := by decide

/-- Ready is impossible while the token lives: the poll returns Pending -/
example : (runSteps (WG.init 1) [.pollUpgrade, .pollRegister, .pollDropTemp]).map obs
    = some ([.alive], .idle, false, false, some false) := by decide

/-- no tokens at shutdown: immediately Ready -/
example : (runSteps (WG.init 0) [.pollUpgrade]).map obs
    = some ([], .idle, false, false, some true) := by decide

end Fcgi.C14b
