import Fcgi.Proofs.E2EPrefixW
import Fcgi.Props.C07Unread3
/-!
# C07 / C05 — a Filter left wholly unread, any Data stream

A well-formed Filter request with KEEP_CONN (any preamble, Stdin and Data segmentation with
reply-owing noise, ANY transport chunking without error answers) whose handler is `[.ret st]`.

`close()`: `writeable()` does `set_stream(Data)` and `poll_input(None)`, which passes over ALL of Stdin
and goes on into the Data stream until Data content is buffered or the Data stream ends — there the
request becomes writeable —; `set_stream(None)` drops what is buffered; `record_boundary()` runs the
stream parser in ignore mode over the following Data records until it stands between two records.
How far that is depends on the chunking, so the theorems are existential in a split

    drecs = d₁ ++ s₂          (of the DATA stream's record list)

* `unread_filter_e2e`: one handler start; the request consumed all of Stdin and exactly the Data
  records `d₁`; the replies owed for the noise in Stdin and in `d₁` precede the epilogue, which is
  that of a writeable request (`[Stdout∅][Stderr∅][EndRequest]`); the next `parse_request` was handed
  exactly `serAll s₂` (a record boundary of the original wire) and answered its noise after the
  epilogue; parked, or returned at end-of-file.
* `unread_filter_e2e_full_holds`: the statement `unread_filter_e2e_full` of `Props/C07Unread2.lean`.
* `unread_filter_chain_e2e`: the chain step — further keep-alive requests are served exactly as alone.

* `unread_prefix_write_e2e`: the Responder handler `[.read n, .open_ 6, .writeAll 0 data, .dropW 0,
  .ret st]` (prefix read, then Stdout output): as `unread_prefix_e2e`, the log being preamble replies,
  `O₁`, the Stdout records, `O₂`, the epilogue, the replies for `s₂`, with `O₁ ++ O₂` the replies owed
  for the consumed records `s₁` (`Proofs/E2EPrefixW`: the write phase redone for a request that has
  NOT read its input to the end — the `StreamWriter` never touches the `Request`).

Proof route: `Proofs/E2EIgnore1` (the ignoring parser seen as a Responder's parser in stream 5 — own-id
Data records are then skipped noise), `Proofs/E2EFilterRef` (`ref_81`: the references `⟨id,3,8⟩` and
`⟨id,1,5⟩` owe the same replies on strings without own-id Stdin headers), `Proofs/E2EFilterStr`
(`r2f_of_switch`, `bloop_simf`), `Proofs/E2EFilterConn` (stages, executor).
-/
namespace Fcgi.C07U
open Fcgi Fcgi.Req Fcgi.Str Fcgi.Async Fcgi.Run Fcgi.Spec Fcgi.E2E Fcgi.C07E

/-- the configuration of a Filter request whose handler is `[.ret st]` -/
def cfgFG (p : Preamble) (recs : List Rec) (content : Bytes) (body : List Rec) (pad : Bytes) (res : UInt8)
    (content2 : Bytes) (body2 : List Rec) (pad2 : Bytes) (res2 : UInt8)
    (b mc : Nat) (st : ExitStatus) (L0 : Bytes) (h : Nat) (more : List (List HOp × Bool)) : E2E.Cfg :=
  ⟨p, recs, content, body, pad, res, content2, body2, pad2, res2, b, mc, [], st, L0, h, more,
    serAll body ++ (({ rtype := 5, id := p.id, content := [], pad := pad, reserved := res } : Rec).ser ++
      (serAll body2 ++ ({ rtype := 8, id := p.id, content := [], pad := pad2, reserved := res2 } : Rec).ser)),
    serAll body2 ++ ({ rtype := 8, id := p.id, content := [], pad := pad2, reserved := res2 } : Rec).ser,
    [], [], [], [.ret st]⟩

/-- what the run of a Filter request left unread ends in -/
structure FilterOutcome (p : Preamble) (recs srecs drecs d₁ s₂ : List Rec)
    (b mc : Nat) (st : ExitStatus) (more : List (List HOp × Bool)) (t : Transport) (c' : Conn) (fin : String) :
    Prop where
  /-- the request consumed Stdin and the Data records `d₁`, the Data records `s₂` are left -/
  split : drecs = d₁ ++ s₂
  /-- exactly one handler start, for the request sent -/
  one_handler : hsCount c'.env.tr.events = 1 ∧ startEvent p.request ∈ c'.env.tr.events
  /-- the log: preamble replies, the replies owed for Stdin and `d₁`, the epilogue of a writeable
  request, the replies owed for `s₂` (as idle noise; `idle_eq`: the same as inside the stream) -/
  log : c'.env.tr.wlog = t.wlog ++ (owedPreamble p mc recs ++
    (owedStream p.id 5 mc srecs ++ owedStream p.id 8 mc d₁) ++ epilogue p.id st ++ idleOwed mc s₂)
  scripts : c'.scripts = more
  /-- the next `parse_request` was handed exactly the bytes `serAll s₂` -/
  final : (t.endMode = .eof ∧ fin = "RET" ∧ c'.phase = .finished) ∨
          (t.endMode = .pend ∧ fin = "STALL" ∧
            c'.phase = .parseReq (track (alignedBufsize b) mc (serAll s₂)) .reading ∧
            c'.env.tr.input = [] ∧ c'.env.mutex = none ∧ c'.stop = false ∧ Ben c'.env.tr)

/-- records none of which is a BeginRequest are owed, as idle noise, what they are owed inside the Data
stream of request `id` -/
theorem idleOwed_eq_owedStream8 (id mc : Nat) {rs : List Rec}
    (hnb : ∀ r ∈ rs, r.rtype.toNat ≠ RT.beginRequest) : idleOwed mc rs = owedStream id 8 mc rs := by
  have key : ∀ r : Rec, r.rtype.toNat ≠ RT.beginRequest →
      owed none mc r = (if r.rtype.toNat == 8 && r.id == id then [] else owed (some id) mc r) := by
    intro r hb
    have hcur : owed none mc r = owed (some id) mc r := by
      simp only [owed]
      split
      · rfl
      · split
        · rfl
        · rw [if_neg (by simpa using hb), if_neg (by simpa using hb)]
    split
    · rename_i hc
      simp only [Bool.and_eq_true, beq_iff_eq] at hc
      exact C04.owed_other none mc r (by rw [hc.1]; decide) (by rw [hc.1]; decide)
        (fun hx => absurd (hc.1 ▸ hx.1) (by decide))
    · exact hcur
  induction rs with
  | nil => rfl
  | cons r rs ih =>
    have h1 := key r (hnb r List.mem_cons_self)
    have h2 := ih (fun x hx => hnb x (List.mem_cons_of_mem _ hx))
    simp only [idleOwed, owedStream, List.flatMap_cons] at h2 ⊢
    rw [h1, h2]

/-- the hypotheses on the request, as `FGOK` -/
theorem fgok_of {p : Preamble} {recs : List Rec} {content : Bytes} {body : List Rec} {pad : Bytes} {res : UInt8}
    {content2 : Bytes} {body2 : List Rec} {pad2 : Bytes} {res2 : UInt8}
    {b mc : Nat} {st : ExitStatus} (L0 : Bytes) (h : Nat) (more : List (List HOp × Bool))
    (hwf : WellFormedPreamble p recs) (hrole : p.role = 3)
    (hpairs : ∀ q ∈ p.pairs, (NV.enc q).length ≤ alignedBufsize b)
    (hnoise : NoiseFits (alignedBufsize b) recs)
    (hs : StreamRecs p.id 5 content
      (body ++ [{ rtype := UInt8.ofNat 5, id := p.id, content := [], pad := pad, reserved := res }]))
    (hsn : NoiseFits (alignedBufsize b)
      (body ++ [{ rtype := UInt8.ofNat 5, id := p.id, content := [], pad := pad, reserved := res }]))
    (hpad2 : pad2.length < 256) (hbody2 : Body p.id 8 content2 body2)
    (hd : StreamRecs p.id 8 content2
      (body2 ++ [{ rtype := UInt8.ofNat 8, id := p.id, content := [], pad := pad2, reserved := res2 }]))
    (hdn : NoiseFits (alignedBufsize b)
      (body2 ++ [{ rtype := UInt8.ofNat 8, id := p.id, content := [], pad := pad2, reserved := res2 }])) :
    FGOK (cfgFG p recs content body pad res content2 body2 pad2 res2 b mc st L0 h more) :=
  ⟨hwf, hrole, hpairs, hnoise, streamRecs_stdin (pid_of_wf hwf).2 hs,
    fun r hr hg => hsn r (List.mem_append_left _ hr) hg, hbody2, streamRecs_data (pid_of_wf hwf).2 hd,
    fun r hr hg => hdn r (List.mem_append_left _ hr) hg, hpad2, rfl, rfl, rfl⟩

/-- the log of the request when `close` is done -/
theorem gC_LU_filter {p : Preamble} {recs : List Rec} {content : Bytes} {body : List Rec} {pad : Bytes} {res : UInt8}
    {content2 : Bytes} {body2 : List Rec} {pad2 : Bytes} {res2 : UInt8}
    {b mc : Nat} {st : ExitStatus} {L0 : Bytes} {h : Nat} {more : List (List HOp × Bool)} (left d1 s2 : List Rec)
    (hl : ∀ e ∈ left, IdleNoise e) :
    (gC ((cfgFG p recs content body pad res content2 body2 pad2 res2 b mc st L0 h more).front left)
      ((body ++ [{ rtype := 5, id := p.id, content := [], pad := pad, reserved := res }]) ++ d1) s2).LU =
      L0 ++ idleOwed mc left ++ (owedPreamble p mc recs ++
        (owedStream p.id 5 mc (body ++ [{ rtype := UInt8.ofNat 5, id := p.id, content := [], pad := pad, reserved := res }]) ++
          owedStream p.id 8 mc d1) ++ epilogue p.id st) := by
  rw [gC_LU, E2E.Cfg.front_L1 _ hl]
  show L0 ++ idleOwed mc left ++ owedPreamble p mc recs ++
    owedI p.id mc ((body ++ [{ rtype := 5, id := p.id, content := [], pad := pad, reserved := res }]) ++ d1) ++
    makeRequestEpilogue p.id st [RT.stdout, RT.stderr] = _
  rw [epilogue_eq, ← owedI_eq_owedStream, ← owedI_eq_owedStream8]
  simp only [owedI, List.flatMap_append, List.append_assoc]
  rfl

/-- **C07/C05 end to end: a Filter left wholly unread.**

A Filter request with KEEP_CONN: well-formed preamble, a Stdin stream and a Data stream with ANY
content, segmentation and noise (management `GetValues` bodies within the C06 bound) except, in the
Data stream, BeginRequest records (`hnb`, forced as in `unread_request_e2e`: what is left of the Data
stream reaches the next request parser), all of it in the transport; ANY transport chunking without
error answers; the handler returns `st` without reading.  Then there is a split `drecs = d₁ ++ s₂`
with `FilterOutcome`: the request consumed all of Stdin and the Data records `d₁` (replies before the
epilogue), the epilogue carries the empty Stdout and Stderr records (the request became writeable
inside `writeable()`), the next `parse_request` was handed exactly `serAll s₂` and answered its noise
after the epilogue. -/
theorem unread_filter_e2e {p : Preamble} {recs : List Rec} {content : Bytes} {srecs : List Rec}
    {content2 : Bytes} {drecs : List Rec}
    {b mc : Nat} {st : ExitStatus} {more : List (List HOp × Bool)} {t : Transport} {fuel : Nat}
    (hwf : WellFormedPreamble p recs) (hrole : p.role = 3) (hk : p.flags.toNat % 2 = 1)
    (hpairs : ∀ q ∈ p.pairs, (NV.enc q).length ≤ alignedBufsize b)
    (hnoise : NoiseFits (alignedBufsize b) recs)
    (hs : StreamRecs p.id 5 content srecs) (hsn : NoiseFits (alignedBufsize b) srecs)
    (hd : StreamRecs p.id 8 content2 drecs) (hdn : NoiseFits (alignedBufsize b) drecs)
    (hnb : ∀ r ∈ drecs, r.rtype.toNat ≠ RT.beginRequest)
    (hin : t.input = serAll recs ++ (serAll srecs ++ serAll drecs)) (hben : Ben t) (hev : hsCount t.events = 0)
    (hfuel : t.rd.length + t.wr.length + 1 ≤ fuel)
    (hsize : 6 * t.input.length + 26 ≤ 100000) :
    ∃ c' fin d₁ s₂, runTask fuel (connS b mc t (([.ret st], true) :: more)) 0 none = (c', fin) ∧
      FilterOutcome p recs srecs drecs d₁ s₂ b mc st more t c' fin := by
  have hid := (pid_of_wf hwf).2
  have hidle : ∀ r ∈ drecs, IdleNoise r := idle_of_noBegin (streamRecs_wf hid (by decide) hd) hnb
  obtain ⟨body, pad, res, hpad, hbody, hsrecs⟩ := StreamRecs.split hs
  obtain ⟨body2, pad2, res2, hpad2, hbody2, hdrecs⟩ := StreamRecs.split hd
  subst hsrecs hdrecs
  have ok := fgok_of (mc := mc) (st := st) t.wlog 0 more hwf hrole hpairs hnoise hs hsn hpad2 hbody2 hd hdn
  have hmem : ∀ d1 s2 : List Rec, (cfgFG p recs content body pad res content2 body2 pad2 res2 b mc st t.wlog 0 more).R2 =
      d1 ++ s2 → ∀ e ∈ s2,
      e ∈ body2 ++ [{ rtype := UInt8.ofNat 8, id := p.id, content := [], pad := pad2, reserved := res2 }] := by
    intro d1 s2 hsp e he
    have : e ∈ (cfgFG p recs content body pad res content2 body2 pad2 res2 b mc st t.wlog 0 more).R2 := by
      rw [hsp]; exact List.mem_append_right _ he
    exact this
  have hgood : ∀ d1 s2 : List Rec, (cfgFG p recs content body pad res content2 body2 pad2 res2 b mc st t.wlog 0 more).R2 =
      d1 ++ s2 → GoodNext (alignedBufsize b) mc s2 (serAll dummyRecs ++ []) := fun d1 s2 hsp =>
    idle_front dummy_wf b mc (fun q hq => by cases hq) (dummy_fits _) (fun e he => hidle e (hmem d1 s2 hsp e he))
      (fun e he hg => hdn e (hmem d1 s2 hsp e he) hg) []
  have hst : FStage (cfgFG p recs content body pad res content2 body2 pad2 res2 b mc st t.wlog 0 more)
      (connS b mc t (([.ret st], true) :: more)) :=
    .start (raw := []) rfl (by
      show [] ++ t.input = _
      rw [hin, C02.serAll_append, C02.serAll_single, C02.serAll_append, C02.serAll_single, List.append_assoc (serAll body)]
      rfl) (Nat.zero_le _) rfl hben rfl rfl rfl hev
  obtain ⟨c', fin, hrun, ⟨d1, s2⟩, hsp, hkp, hem, _, _, _, hend⟩ :=
    run_filterG ok hk (Z := serAll dummyRecs ++ []) (fun d1 s2 h => (hgood d1 s2 h).1) (fun d1 s2 h => (hgood d1 s2 h).2)
      t.endMode [] _ 0 fuel hst rfl (fun s hs => by cases hs) rfl (by show ans t + 1 ≤ fuel; unfold ans; omega) hsize
  have hsp' : body2 ++ [{ rtype := UInt8.ofNat 8, id := p.id, content := [], pad := pad2, reserved := res2 }] = d1 ++ s2 := hsp
  have hs2 : ∀ e ∈ s2, IdleNoise e := fun e he => hidle e (hmem d1 s2 hsp e he)
  have hLU := gC_LU_filter (p := p) (recs := recs) (content := content) (body := body) (pad := pad) (res := res)
    (content2 := content2) (body2 := body2) (pad2 := pad2) (res2 := res2)
    (b := b) (mc := mc) (st := st) (L0 := t.wlog) (h := 0) (more := more) [] d1 s2 (fun _ h => nomatch h)
  have hout : ∀ F, F ++ (serAll dummyRecs ++ []) = serAll s2 ++ (serAll dummyRecs ++ []) →
      (gC (cfgFG p recs content body pad res content2 body2 pad2 res2 b mc st t.wlog 0 more)
        ((cfgFG p recs content body pad res content2 body2 pad2 res2 b mc st t.wlog 0 more).R ++ d1) s2).LU ++
        (run .header F mc).out =
      t.wlog ++ (owedPreamble p mc recs ++
        (owedStream p.id 5 mc (body ++ [{ rtype := UInt8.ofNat 5, id := p.id, content := [], pad := pad, reserved := res }]) ++
          owedStream p.id 8 mc d1) ++ epilogue p.id st ++ idleOwed mc s2) := by
    intro F hF
    have e : (cfgFG p recs content body pad res content2 body2 pad2 res2 b mc st t.wlog 0 more).front [] =
        cfgFG p recs content body pad res content2 body2 pad2 res2 b mc st t.wlog 0 more := rfl
    rw [e] at hLU
    have hLU' : (gC (cfgFG p recs content body pad res content2 body2 pad2 res2 b mc st t.wlog 0 more)
        ((cfgFG p recs content body pad res content2 body2 pad2 res2 b mc st t.wlog 0 more).R ++ d1) s2).LU =
        t.wlog ++ idleOwed mc [] ++ (owedPreamble p mc recs ++
          (owedStream p.id 5 mc (body ++ [{ rtype := UInt8.ofNat 5, id := p.id, content := [], pad := pad, reserved := res }]) ++
            owedStream p.id 8 mc d1) ++ epilogue p.id st) := hLU
    rw [List.append_cancel_right hF, (run_idle_out mc s2 hs2).1, hLU']
    simp only [idleOwed, List.flatMap_nil, List.append_nil, List.append_assoc]
  refine ⟨c', fin, d1, s2, hrun, hsp', ⟨hkp.hs, hkp.ev _ List.mem_cons_self⟩, ?_, hkp.sc, ?_⟩
  · rcases hend with ⟨_, hp⟩ | ⟨_, hf⟩
    · obtain ⟨F, hF, _, _, hlg⟩ := hp.pst
      exact hlg.trans (hout F hF)
    · obtain ⟨F, hF, hlg⟩ := hf.log
      exact hlg.trans (hout F hF)
  · rcases hend with ⟨rfl, hp⟩ | ⟨rfl, hf⟩
    · obtain ⟨F, hF, hps, hph, _⟩ := hp.pst
      have hFe : F = serAll s2 := List.append_cancel_right hF
      subst hFe
      exact Or.inr ⟨hem.symm.trans hp.em, rfl, hph, hp.inp, hkp.mx, hps.stop, hps.ben⟩
    · exact Or.inl ⟨hem.symm.trans hf.em, rfl, hf.ph⟩

/-- **`unread_filter_e2e_full` holds.** -/
theorem unread_filter_e2e_full_holds : unread_filter_e2e_full := by
  intro p recs content srecs content2 drecs b mc st t fuel hwf hrole hk hpairs hnoise hs hsn hd hdn hnb hin hben hem
    hev hfuel hsize
  obtain ⟨c', fin, d1, s2, hrun, ho⟩ := unread_filter_e2e (mc := mc) (st := st) (more := []) (fuel := fuel) hwf hrole hk
    hpairs hnoise hs hsn hd hdn (fun r hr => hnb r (List.mem_append_right _ hr)) hin hben hev hfuel hsize
  rcases ho.final with ⟨h, _⟩ | ⟨_, hfin, hph, hinp, _⟩
  · rw [hem] at h; cases h
  · subst hfin
    exact ⟨c', d1, s2, hrun, ho.split, ho.log, ho.one_handler.1, hinp, hph⟩

/-- **The chain step for a Filter left unread.**  A closed-loop client sends the Filter request of
`unread_filter_e2e` and then the keep-alive requests `x :: xs` (`UReq.OK`): `1 + k` handler starts; the
log is the Filter's segment (`… epilogue ++ owedStream s₂`) followed by the `k` segments `UReq.Seg`,
each exactly what a connection serving that request alone writes — whatever `s₂` was left; the task
is parked behind what the last request left. -/
theorem unread_filter_chain_e2e {p : Preamble} {recs : List Rec} {content : Bytes} {srecs : List Rec}
    {content2 : Bytes} {drecs : List Rec}
    {b mc : Nat} {st : ExitStatus} (x : UReq) (xs : List UReq) {t : Transport} {fuel : Nat}
    (hwf : WellFormedPreamble p recs) (hrole : p.role = 3) (hk : p.flags.toNat % 2 = 1)
    (hpairs : ∀ q ∈ p.pairs, (NV.enc q).length ≤ alignedBufsize b)
    (hnoise : NoiseFits (alignedBufsize b) recs)
    (hs : StreamRecs p.id 5 content srecs) (hsn : NoiseFits (alignedBufsize b) srecs)
    (hd : StreamRecs p.id 8 content2 drecs) (hdn : NoiseFits (alignedBufsize b) drecs)
    (hnb : ∀ r ∈ drecs, r.rtype.toNat ≠ RT.beginRequest)
    (hok : ∀ y ∈ x :: xs, y.OK b)
    (hin : t.input = serAll recs ++ (serAll srecs ++ serAll drecs)) (hben : Ben t) (hem : t.endMode = .pend)
    (hev : hsCount t.events = 0) (hfuel : t.rd.length + t.wr.length + 1 ≤ fuel)
    (hsize : 6 * t.input.length + 26 ≤ 100000) :
    ∃ c' d₁ s₂ A,
      closedLoop fuel ((x :: xs).map UReq.wire)
        (connS b mc t (([.ret st], true) :: (x :: xs).map UReq.handler)) 0 = (c', "STALL") ∧
      drecs = d₁ ++ s₂ ∧
      SegsAll mc (x :: xs) A ∧
      c'.env.tr.wlog = t.wlog ++ (owedPreamble p mc recs ++
        (owedStream p.id 5 mc srecs ++ owedStream p.id 8 mc d₁) ++ epilogue p.id st ++ owedStream p.id 8 mc s₂) ++ A ∧
      hsCount c'.env.tr.events = 1 + (x :: xs).length ∧
      startEvent p.request ∈ c'.env.tr.events ∧
      (∀ y ∈ x :: xs, startEvent y.p.request ∈ c'.env.tr.events) ∧ c'.scripts = [] ∧
      c'.env.tr.input = [] ∧
      c'.phase = .parseReq (track (alignedBufsize b) mc (serAll ((x :: xs).getLast (by simp)).left)) .reading := by
  have hid := (pid_of_wf hwf).2
  have hidle : ∀ r ∈ drecs, IdleNoise r := idle_of_noBegin (streamRecs_wf hid (by decide) hd) hnb
  obtain ⟨body, pad, res, hpad, hbody, hsrecs⟩ := StreamRecs.split hs
  obtain ⟨body2, pad2, res2, hpad2, hbody2, hdrecs⟩ := StreamRecs.split hd
  subst hsrecs hdrecs
  have ok := fgok_of (mc := mc) (st := st) t.wlog 0 (((x :: xs).map (UReq.spec mc)).map RSpec.handler)
    hwf hrole hpairs hnoise hs hsn hpad2 hbody2 hd hdn
  have hW : (cfgFG p recs content body pad res content2 body2 pad2 res2 b mc st t.wlog 0
      (((x :: xs).map (UReq.spec mc)).map RSpec.handler)).W = t.input := by
    rw [hin, C02.serAll_append, C02.serAll_single, C02.serAll_append, C02.serAll_single, List.append_assoc (serAll body)]
    rfl
  have hstart : StartAt (alignedBufsize b) mc [] t.wlog
      (([.ret st], true) :: ((x :: xs).map (UReq.spec mc)).map RSpec.handler) 0 [] (ans t)
      (cfgFG p recs content body pad res content2 body2 pad2 res2 b mc st t.wlog 0
        (((x :: xs).map (UReq.spec mc)).map RSpec.handler)).W
      (connS b mc t (([.ret st], true) :: ((x :: xs).map (UReq.spec mc)).map RSpec.handler)) :=
    Or.inr ⟨rfl, rfl, by show t.input = _; rw [hW], rfl, hben, rfl, rfl, rfl, hev,
      (fun _ hs => nomatch hs), rfl, hem, Nat.le_refl _⟩
  have hleft0 : LeftOK (alignedBufsize b) [] := ⟨(fun _ he => nomatch he), (fun _ hr => nomatch hr)⟩
  have hlo : ∀ d1 s2 : List Rec, (cfgFG p recs content body pad res content2 body2 pad2 res2 b mc st t.wlog 0
      (((x :: xs).map (UReq.spec mc)).map RSpec.handler)).R2 = d1 ++ s2 → LeftOK (alignedBufsize b) s2 := by
    intro d1 s2 hsp
    have hm : ∀ e ∈ s2, e ∈ (cfgFG p recs content body pad res content2 body2 pad2 res2 b mc st t.wlog 0
        (((x :: xs).map (UReq.spec mc)).map RSpec.handler)).R2 := fun e he => by
      rw [hsp]; exact List.mem_append_right _ he
    exact ⟨fun e he => hidle e (hm e he), fun e he hg => hdn e (hm e he) hg⟩
  obtain ⟨c1, d1, s2, hrun1, hsp, hw1⟩ := serve_filterG_core ok hk (left := []) hleft0
    (Z := x.wire) (fun e he => hidle e he)
    (fun d1 s2 hsp => goodNext_of_ok (hok x List.mem_cons_self) (hlo d1 s2 hsp)) 0 fuel
    (by simp [idleOwed]; rfl) hstart (by unfold ans; omega) (by rw [hW]; exact hsize)
  have hsp' : body2 ++ [{ rtype := UInt8.ofNat 8, id := p.id, content := [], pad := pad2, reserved := res2 }] = d1 ++ s2 := hsp
  have hnb2 : ∀ r ∈ s2, r.rtype.toNat ≠ RT.beginRequest := fun e he => hnb e (by
    rw [hsp']; exact List.mem_append_right _ he)
  have hLU := gC_LU_filter (p := p) (recs := recs) (content := content) (body := body) (pad := pad) (res := res)
    (content2 := content2) (body2 := body2) (pad2 := pad2) (res2 := res2)
    (b := b) (mc := mc) (st := st) (L0 := t.wlog) (h := 0)
    (more := ((x :: xs).map (UReq.spec mc)).map RSpec.handler) [] d1 s2 (fun _ h => nomatch h)
  have hLw : (gC ((cfgFG p recs content body pad res content2 body2 pad2 res2 b mc st t.wlog 0
      (((x :: xs).map (UReq.spec mc)).map RSpec.handler)).front [])
      ((cfgFG p recs content body pad res content2 body2 pad2 res2 b mc st t.wlog 0
      (((x :: xs).map (UReq.spec mc)).map RSpec.handler)).R ++ d1) s2).LU ++ idleOwed mc s2 =
      t.wlog ++ (owedPreamble p mc recs ++
        (owedStream p.id 5 mc (body ++ [{ rtype := UInt8.ofNat 5, id := p.id, content := [], pad := pad, reserved := res }]) ++
          owedStream p.id 8 mc d1) ++ epilogue p.id st ++ owedStream p.id 8 mc s2) := by
    have hLU' : (gC ((cfgFG p recs content body pad res content2 body2 pad2 res2 b mc st t.wlog 0
      (((x :: xs).map (UReq.spec mc)).map RSpec.handler)).front [])
      ((cfgFG p recs content body pad res content2 body2 pad2 res2 b mc st t.wlog 0
      (((x :: xs).map (UReq.spec mc)).map RSpec.handler)).R ++ d1) s2).LU = _ := hLU
    rw [hLU', idleOwed_eq_owedStream8 p.id mc hnb2]
    simp only [idleOwed, List.flatMap_nil, List.append_nil, List.append_assoc]
  have hw1' : Waiting (alignedBufsize b) mc s2
      (t.wlog ++ (owedPreamble p mc recs ++
        (owedStream p.id 5 mc (body ++ [{ rtype := UInt8.ofNat 5, id := p.id, content := [], pad := pad, reserved := res }]) ++
          owedStream p.id 8 mc d1) ++ epilogue p.id st ++ owedStream p.id 8 mc s2))
      (((x :: xs).map (UReq.spec mc)).map RSpec.handler) 1 [hsEvent p.request] (ans t) c1 := by
    rw [← hLw]; exact hw1
  obtain ⟨c', A, hrun, hseg, hw⟩ := chain_serves (alignedBufsize b) mc (serAll dummyRecs ++ [])
    (xs.map (UReq.spec mc)) (UReq.spec mc x) s2 _ 1 [hsEvent p.request] (ans t) (feed c1 x.wire) 1000 fuel
    (hall_of_ok x xs hok) (hlo d1 s2 hsp) (Or.inl ⟨c1, hw1', rfl⟩) (by unfold ans; omega)
  have hrun' : closedLoop fuel ((x :: xs).map UReq.wire)
      (connS b mc t (([.ret st], true) :: (x :: xs).map UReq.handler)) 0 = (c', "STALL") := by
    have e : (x :: xs).map UReq.handler = ((x :: xs).map (UReq.spec mc)).map RSpec.handler := by
      rw [List.map_map]; rfl
    rw [e]
    show closedLoop fuel (x.wire :: xs.map UReq.wire) _ 0 = _
    rw [closedLoop, hrun1]
    simp only [if_true]
    rw [← hrun, List.map_map]; rfl
  have hlast := lastLeft_specs mc x xs
  refine ⟨c', d1, s2, A, hrun', hsp', segAll_specs mc (x :: xs) A hseg, hw.log, ?_, ?_, ?_, hw.sc, hw.inp, ?_⟩
  · have := hw.hs; simpa [Nat.add_comm] using this
  · exact hw.ev _ (mem_evsAfter _ _ _ (Or.inl List.mem_cons_self))
  · intro y hy
    exact hw.ev _ (mem_evsAfter _ _ _ (Or.inr ⟨UReq.spec mc y, List.mem_map_of_mem hy, rfl⟩))
  · rw [← hlast]; exact hw.ph

/-! ## The handler reads a prefix of Stdin, then writes to Stdout -/

/-- the handler: one `read` of up to `n` bytes, then `data` to Stdout, then `Ok(st)` -/
abbrev readThenWrite (n : Nat) (data : Bytes) (st : ExitStatus) : List HOp := .read n :: writeOnly data st

/-- the configuration of a Responder request whose handler is `readThenWrite n data st` -/
def cfgPW (p : Preamble) (recs : List Rec) (content : Bytes) (body : List Rec) (pad : Bytes) (res : UInt8)
    (b mc n : Nat) (data : Bytes) (st : ExitStatus) (L0 : Bytes) (h : Nat) (more : List (List HOp × Bool)) : E2E.Cfg :=
  ⟨p, recs, content, body, pad, res, [], [], [], 0, b, mc, data, st, L0, h, more,
    serAll body ++ ({ rtype := 5, id := p.id, content := [], pad := pad, reserved := res } : Rec).ser,
    [], [], [], [], readThenWrite n data st⟩

/-- what the run ends in -/
structure PrefixWriteOutcome (p : Preamble) (recs : List Rec) (content : Bytes) (srecs s₁ s₂ : List Rec) (O₁ O₂ d : Bytes)
    (b mc : Nat) (data : Bytes) (st : ExitStatus) (more : List (List HOp × Bool)) (t : Transport) (c' : Conn)
    (fin : String) : Prop where
  /-- the request consumed the records `s₁`, the records `s₂` are left -/
  split : srecs = s₁ ++ s₂
  /-- the replies owed for `s₁`: `O₁` were written before the handler's output, `O₂` by `close` -/
  owed : O₁ ++ O₂ = owedStream p.id 5 mc s₁
  /-- the `read` returned `d`: a prefix of the Stdin content, empty only if the content is -/
  read : d <+: content ∧ (d = [] → content = []) ∧ readSomeEvent d ∈ c'.env.tr.events
  one_handler : hsCount c'.env.tr.events = 1 ∧ startEvent p.request ∈ c'.env.tr.events
  log : c'.env.tr.wlog = t.wlog ++ (owedPreamble p mc recs ++ O₁ ++ streamRecords 6 p.id data ++ O₂ ++
    epilogue p.id st ++ owedStream p.id 5 mc s₂)
  scripts : c'.scripts = more
  final : (t.endMode = .eof ∧ fin = "RET" ∧ c'.phase = .finished) ∨
          (t.endMode = .pend ∧ fin = "STALL" ∧
            c'.phase = .parseReq (track (alignedBufsize b) mc (serAll s₂)) .reading ∧
            c'.env.tr.input = [] ∧ c'.env.mutex = none ∧ c'.stop = false ∧ Ben c'.env.tr)

/-- **C07/C05 end to end: the handler reads a prefix of Stdin and writes to Stdout.**

As `unread_prefix_e2e`, the handler being `[.read n, .open_ 6, .writeAll 0 data, .dropW 0, .ret st]`
(`hhf`: a bound for the model fuel).  The `StreamWriter` does not touch the `Request`: replies queued
in the stream parser when the `read` returned stay queued while `data` is written.  So the log is:
preamble replies, `O₁`, the Stdout records of `data`, `O₂`, the epilogue, the replies for `s₂` — with
`O₁ ++ O₂` the replies owed for the consumed records `s₁`. -/
theorem unread_prefix_write_e2e {p : Preamble} {recs : List Rec} {content : Bytes} {srecs : List Rec}
    {b mc n : Nat} {data : Bytes} {st : ExitStatus} {more : List (List HOp × Bool)} {t : Transport} {fuel : Nat}
    (hn : 0 < n)
    (hwf : WellFormedPreamble p recs) (hrole : p.role = 1) (hk : p.flags.toNat % 2 = 1)
    (hpairs : ∀ q ∈ p.pairs, (NV.enc q).length ≤ alignedBufsize b)
    (hnoise : NoiseFits (alignedBufsize b) recs)
    (hstr : StreamRecs p.id 5 content srecs) (hsn : NoiseFits (alignedBufsize b) srecs)
    (hnb : ∀ r ∈ srecs, r.rtype.toNat ≠ RT.beginRequest)
    (hin : t.input = serAll recs ++ serAll srecs) (hben : Ben t) (hev : hsCount t.events = 0)
    (hfuel : t.rd.length + t.wr.length + 1 ≤ fuel)
    (hsize : 6 * t.input.length + 26 ≤ 100000) (hhf : wcost data.length + 6 ≤ 1000) :
    ∃ c' fin s₁ s₂ O₁ O₂ d, runTask fuel (connS b mc t ((readThenWrite n data st, true) :: more)) 0 none = (c', fin) ∧
      PrefixWriteOutcome p recs content srecs s₁ s₂ O₁ O₂ d b mc data st more t c' fin := by
  have hidle := srecs_idle hwf hstr hnb
  obtain ⟨body, pad, res, hpad, hbody, hsrecs⟩ := StreamRecs.split hstr
  subst hsrecs
  have ok : PWOK (cfgPW p recs content body pad res b mc n data st t.wlog 0 more) n :=
    ⟨hwf, hrole, hpairs, hnoise, hbody, fun r hr hg => hsn r (List.mem_append_left _ hr) hg, hpad, rfl, rfl,
      streamRecs_stdin (pid_of_wf hwf).2 hstr, rfl, hn, hhf⟩
  have hmem : ∀ s1 s2 : List Rec, (cfgPW p recs content body pad res b mc n data st t.wlog 0 more).R = s1 ++ s2 →
      ∀ e ∈ s2, e ∈ body ++ [{ rtype := UInt8.ofNat 5, id := p.id, content := [], pad := pad, reserved := res }] := by
    intro s1 s2 hsp e he
    have : e ∈ (cfgPW p recs content body pad res b mc n data st t.wlog 0 more).R := by
      rw [hsp]; exact List.mem_append_right _ he
    exact this
  have hgood : ∀ s1 s2 : List Rec, (cfgPW p recs content body pad res b mc n data st t.wlog 0 more).R = s1 ++ s2 →
      GoodNext (alignedBufsize b) mc s2 (serAll dummyRecs ++ []) := fun s1 s2 hsp =>
    idle_front dummy_wf b mc (fun q hq => by cases hq) (dummy_fits _) (fun e he => hidle e (hmem s1 s2 hsp e he))
      (fun e he hg => hsn e (hmem s1 s2 hsp e he) hg) []
  have hst : FStage (cfgPW p recs content body pad res b mc n data st t.wlog 0 more)
      (connS b mc t ((readThenWrite n data st, true) :: more)) :=
    .start (raw := []) rfl (by show [] ++ t.input = _; rw [hin, C02.serAll_append, C02.serAll_single]; rfl)
      (Nat.zero_le _) rfl hben rfl rfl rfl hev
  obtain ⟨c', fin, hrun, i, hi, hkp, hem, _, _, _, hend⟩ :=
    run_prefixW ok hk (Z := serAll dummyRecs ++ []) (fun s1 s2 h => (hgood s1 s2 h).1) (fun s1 s2 h => (hgood s1 s2 h).2)
      t.endMode [] _ 0 fuel hst rfl (fun s hs => by cases hs) rfl (by show ans t + 1 ≤ fuel; unfold ans; omega) hsize
  obtain ⟨hsp, hO, hd1, hd2⟩ := hi
  have hs2 : ∀ e ∈ i.s2, IdleNoise e := fun e he => hidle e (hmem i.s1 i.s2 hsp e he)
  have hnb2 : ∀ r ∈ i.s2, r.rtype.toNat ≠ RT.beginRequest := fun e he => hnb e (hmem i.s1 i.s2 hsp e he)
  have hout : ∀ F, F ++ (serAll dummyRecs ++ []) = serAll i.s2 ++ (serAll dummyRecs ++ []) →
      ((cfgPW p recs content body pad res b mc n data st t.wlog 0 more).L1 ++ i.O1) ++
        (cfgPW p recs content body pad res b mc n data st t.wlog 0 more).D ++ i.O2 ++
        (cfgPW p recs content body pad res b mc n data st t.wlog 0 more).epi ++ (run .header F mc).out =
      t.wlog ++ (owedPreamble p mc recs ++ i.O1 ++ streamRecords 6 p.id data ++ i.O2 ++ epilogue p.id st ++
        owedStream p.id 5 mc i.s2) := by
    intro F hF
    rw [List.append_cancel_right hF, (run_idle_out mc i.s2 hs2).1, idleOwed_eq_owedStream5 p.id mc hnb2]
    show ((t.wlog ++ owedPreamble p mc recs) ++ i.O1) ++ streamRecords 6 p.id data ++ i.O2 ++
      makeRequestEpilogue p.id st [RT.stdout, RT.stderr] ++ _ = _
    rw [epilogue_eq]
    simp only [List.append_assoc]
  refine ⟨c', fin, i.s1, i.s2, i.O1, i.O2, i.d, hrun, hsp, hO.trans (owedI_eq_owedStream p.id mc i.s1),
    ⟨hd1, hd2, hkp.ev _ (by simp)⟩, ⟨hkp.hs, hkp.ev _ List.mem_cons_self⟩, ?_, hkp.sc, ?_⟩
  · rcases hend with ⟨_, hp⟩ | ⟨_, hf⟩
    · obtain ⟨F, hF, _, _, hlg⟩ := hp.pst
      exact hlg.trans (hout F hF)
    · obtain ⟨F, hF, hlg⟩ := hf.log
      exact hlg.trans (hout F hF)
  · rcases hend with ⟨rfl, hp⟩ | ⟨rfl, hf⟩
    · obtain ⟨F, hF, hps, hph, _⟩ := hp.pst
      have hFe : F = serAll i.s2 := List.append_cancel_right hF
      subst hFe
      exact Or.inr ⟨hem.symm.trans hp.em, rfl, hph, hp.inp, hkp.mx, hps.stop, hps.ben⟩
    · exact Or.inl ⟨hem.symm.trans hf.em, rfl, hf.ph⟩

/-- **The chain step for the prefix-read-then-write handler**: a closed-loop client sends the request of
`unread_prefix_write_e2e` and then the keep-alive requests `x :: xs` (`UReq.OK`): each later request is
served exactly as alone (`UReq.Seg`), whatever `s₂` was left. -/
theorem unread_prefix_write_chain_e2e {p : Preamble} {recs : List Rec} {content : Bytes} {srecs : List Rec}
    {b mc n : Nat} {data : Bytes} {st : ExitStatus} (x : UReq) (xs : List UReq) {t : Transport} {fuel : Nat}
    (hn : 0 < n)
    (hwf : WellFormedPreamble p recs) (hrole : p.role = 1) (hk : p.flags.toNat % 2 = 1)
    (hpairs : ∀ q ∈ p.pairs, (NV.enc q).length ≤ alignedBufsize b)
    (hnoise : NoiseFits (alignedBufsize b) recs)
    (hstr : StreamRecs p.id 5 content srecs) (hsn : NoiseFits (alignedBufsize b) srecs)
    (hnb : ∀ r ∈ srecs, r.rtype.toNat ≠ RT.beginRequest)
    (hok : ∀ y ∈ x :: xs, y.OK b)
    (hin : t.input = serAll recs ++ serAll srecs) (hben : Ben t) (hem : t.endMode = .pend)
    (hev : hsCount t.events = 0) (hfuel : t.rd.length + t.wr.length + 1 ≤ fuel)
    (hsize : 6 * t.input.length + 26 ≤ 100000) (hhf : wcost data.length + 6 ≤ 1000) :
    ∃ c' s₁ s₂ O₁ O₂ d A,
      closedLoop fuel ((x :: xs).map UReq.wire)
        (connS b mc t ((readThenWrite n data st, true) :: (x :: xs).map UReq.handler)) 0 = (c', "STALL") ∧
      srecs = s₁ ++ s₂ ∧ O₁ ++ O₂ = owedStream p.id 5 mc s₁ ∧ d <+: content ∧ readSomeEvent d ∈ c'.env.tr.events ∧
      SegsAll mc (x :: xs) A ∧
      c'.env.tr.wlog = t.wlog ++ (owedPreamble p mc recs ++ O₁ ++ streamRecords 6 p.id data ++ O₂ ++ epilogue p.id st ++
        owedStream p.id 5 mc s₂) ++ A ∧
      hsCount c'.env.tr.events = 1 + (x :: xs).length ∧
      startEvent p.request ∈ c'.env.tr.events ∧
      (∀ y ∈ x :: xs, startEvent y.p.request ∈ c'.env.tr.events) ∧ c'.scripts = [] ∧
      c'.env.tr.input = [] ∧
      c'.phase = .parseReq (track (alignedBufsize b) mc (serAll ((x :: xs).getLast (by simp)).left)) .reading := by
  have hidle := srecs_idle hwf hstr hnb
  obtain ⟨body, pad, res, hpad, hbody, hsrecs⟩ := StreamRecs.split hstr
  subst hsrecs
  have ok : PWOK (cfgPW p recs content body pad res b mc n data st t.wlog 0
      (((x :: xs).map (UReq.spec mc)).map RSpec.handler)) n :=
    ⟨hwf, hrole, hpairs, hnoise, hbody, fun r hr hg => hsn r (List.mem_append_left _ hr) hg, hpad, rfl, rfl,
      streamRecs_stdin (pid_of_wf hwf).2 hstr, rfl, hn, hhf⟩
  -- the first request
  have hstart : StartAt (alignedBufsize b) mc [] t.wlog
      ((readThenWrite n data st, true) :: ((x :: xs).map (UReq.spec mc)).map RSpec.handler) 0 [] (ans t)
      (serAll recs ++ (serAll body ++
        ({ rtype := 5, id := p.id, content := [], pad := pad, reserved := res } : Rec).ser))
      (connS b mc t ((readThenWrite n data st, true) :: ((x :: xs).map (UReq.spec mc)).map RSpec.handler)) :=
    Or.inr ⟨rfl, rfl, by show t.input = _; rw [hin, C02.serAll_append, C02.serAll_single]; rfl, rfl, hben, rfl, rfl, rfl, hev,
      (fun _ hs => nomatch hs), rfl, hem, Nat.le_refl _⟩
  have hleft0 : LeftOK (alignedBufsize b) [] := ⟨(fun _ he => nomatch he), (fun _ hr => nomatch hr)⟩
  have hR : ∀ e ∈ (cfgPW p recs content body pad res b mc n data st t.wlog 0
      (((x :: xs).map (UReq.spec mc)).map RSpec.handler)).R, IdleNoise e := fun e he => hidle e he
  have hlo : ∀ s1 s2 : List Rec, (cfgPW p recs content body pad res b mc n data st t.wlog 0
      (((x :: xs).map (UReq.spec mc)).map RSpec.handler)).R = s1 ++ s2 → LeftOK (alignedBufsize b) s2 := by
    intro s1 s2 hsp
    have hm : ∀ e ∈ s2, e ∈ (cfgPW p recs content body pad res b mc n data st t.wlog 0
        (((x :: xs).map (UReq.spec mc)).map RSpec.handler)).R := fun e he => by
      rw [hsp]; exact List.mem_append_right _ he
    exact ⟨fun e he => hidle e (hm e he), fun e he hg => hsn e (hm e he) hg⟩
  have hsz : 6 * (cfgPW p recs content body pad res b mc n data st t.wlog 0
      (((x :: xs).map (UReq.spec mc)).map RSpec.handler)).W.length + 26 ≤ 100000 := by
    have : (cfgPW p recs content body pad res b mc n data st t.wlog 0
      (((x :: xs).map (UReq.spec mc)).map RSpec.handler)).W = t.input := by
      rw [hin, C02.serAll_append, C02.serAll_single]; rfl
    rw [this]; exact hsize
  obtain ⟨c1, i, hrun1, ⟨hsp, hO, hd1, _⟩, hd3, hw1⟩ := serve_prefixW_core ok hk (left := []) hleft0
    (Z := x.wire) hR (fun s1 s2 hsp => goodNext_of_ok (hok x List.mem_cons_self) (hlo s1 s2 hsp)) 0 fuel
    (by simp [idleOwed]; rfl) hstart (by unfold ans; omega) hsz
  have hnb2 : ∀ r ∈ i.s2, r.rtype.toNat ≠ RT.beginRequest := fun e he => hnb e (by
    have : e ∈ (cfgPW p recs content body pad res b mc n data st t.wlog 0
        (((x :: xs).map (UReq.spec mc)).map RSpec.handler)).R := by rw [hsp]; exact List.mem_append_right _ he
    exact this)
  have hLw : (((cfgPW p recs content body pad res b mc n data st t.wlog 0
      (((x :: xs).map (UReq.spec mc)).map RSpec.handler)).front []).L1 ++ i.O1) ++
      (cfgPW p recs content body pad res b mc n data st t.wlog 0
      (((x :: xs).map (UReq.spec mc)).map RSpec.handler)).D ++ i.O2 ++
      (cfgPW p recs content body pad res b mc n data st t.wlog 0
      (((x :: xs).map (UReq.spec mc)).map RSpec.handler)).epi ++ idleOwed mc i.s2 =
      t.wlog ++ (owedPreamble p mc recs ++ i.O1 ++ streamRecords 6 p.id data ++ i.O2 ++ epilogue p.id st ++
        owedStream p.id 5 mc i.s2) := by
    rw [idleOwed_eq_owedStream5 p.id mc hnb2]
    show ((t.wlog ++ owedPreamble p mc ([] ++ recs)) ++ i.O1) ++ streamRecords 6 p.id data ++ i.O2 ++
      makeRequestEpilogue p.id st [RT.stdout, RT.stderr] ++ _ = _
    rw [epilogue_eq]
    simp only [List.append_assoc, List.nil_append]
  have hw1' : Waiting (alignedBufsize b) mc i.s2
      (t.wlog ++ (owedPreamble p mc recs ++ i.O1 ++ streamRecords 6 p.id data ++ i.O2 ++ epilogue p.id st ++
        owedStream p.id 5 mc i.s2))
      (((x :: xs).map (UReq.spec mc)).map RSpec.handler) 1 [hsEvent p.request, rdEvent i.d] (ans t) c1 := by
    rw [← hLw]
    have hev' : ∀ s ∈ [hsEvent p.request, rdEvent i.d], s ∈ c1.env.tr.events := by
      intro s hs
      rcases List.mem_cons.1 hs with rfl | hs
      · exact hw1.ev _ List.mem_cons_self
      · rw [List.mem_singleton.1 hs]; exact hd3
    exact { hw1 with ev := hev' }
  -- the others
  obtain ⟨c', A, hrun, hseg, hw⟩ := chain_serves (alignedBufsize b) mc (serAll dummyRecs ++ [])
    (xs.map (UReq.spec mc)) (UReq.spec mc x) i.s2 _ 1 [hsEvent p.request, rdEvent i.d] (ans t) (feed c1 x.wire) 1000 fuel
    (hall_of_ok x xs hok) (hlo i.s1 i.s2 hsp) (Or.inl ⟨c1, hw1', rfl⟩) (by unfold ans; omega)
  have hrun' : closedLoop fuel ((x :: xs).map UReq.wire)
      (connS b mc t ((readThenWrite n data st, true) :: (x :: xs).map UReq.handler)) 0 = (c', "STALL") := by
    have e : (x :: xs).map UReq.handler = ((x :: xs).map (UReq.spec mc)).map RSpec.handler := by
      rw [List.map_map]; rfl
    rw [e]
    show closedLoop fuel (x.wire :: xs.map UReq.wire) _ 0 = _
    rw [closedLoop, hrun1]
    simp only [if_true]
    rw [← hrun, List.map_map]; rfl
  have hlast := lastLeft_specs mc x xs
  have hevd : readSomeEvent i.d ∈ c'.env.tr.events :=
    hw.ev _ (mem_evsAfter _ _ _ (Or.inl (by simp)))
  refine ⟨c', i.s1, i.s2, i.O1, i.O2, i.d, A, hrun', hsp, hO.trans (owedI_eq_owedStream p.id mc i.s1), hd1, hevd, segAll_specs mc (x :: xs) A hseg, hw.log, ?_, ?_, ?_, hw.sc, hw.inp, ?_⟩
  · have := hw.hs; simpa [Nat.add_comm] using this
  · exact hw.ev _ (mem_evsAfter _ _ _ (Or.inl List.mem_cons_self))
  · intro y hy
    exact hw.ev _ (mem_evsAfter _ _ _ (Or.inr ⟨UReq.spec mc y, List.mem_map_of_mem hy, rfl⟩))
  · rw [← hlast]; exact hw.ph


/-! ## Non-vacuity -/
namespace Example
open Fcgi.C01.Example Fcgi.C07E.Example

/-- the KEEP_CONN Filter request of `Props/C07Unread3` with Stdin `"AB"` (`fS`) and the Data stream `fD`:
a management `GetValues` record, the data record `"xyz"`, the terminator -/
def fgT : Transport :=
  { input := serAll recsFK ++ (serAll fS ++ serAll fD), endMode := .pend,
    rd := [.n 24, .n 18, .n 24, .n 9, .all], wr := [.n 3, .pending, .all], fl := [] }

theorem fD_noBegin : ∀ r ∈ fD, r.rtype.toNat ≠ RT.beginRequest := by decide

/-- `unread_filter_e2e` applied to a Filter whose Data stream HAS content; the handler returns
`Complete(3)` without reading.  On this transport (`# case c07-filter-unread-content-24,18,24,9,A`)
compiled model driver and real crate print `… HS(3,1,-) HE(ok:complete:3) R64:18 R64:24 W32:3 W29:P |1
W29:29 R64:9 R64:11 W32:32 R64:W STALL`: `writeable()` reads Stdin, the `GetValues` record (reply
written) and 9 bytes of the data record (1 byte of content buffered), `record_boundary()` reads the
rest — here all of it, `s₂ = []`. -/
example : ∃ c' d₁ s₂, runTask 20 (connS 64 10 fgT [([.ret (.complete 3)], true)]) 0 none = (c', "STALL") ∧
    fD = d₁ ++ s₂ ∧
    c'.env.tr.wlog = owedStream 1 8 10 d₁ ++
      [1, 6, 0, 1, 0, 0, 0, 0, 1, 7, 0, 1, 0, 0, 0, 0, 1, 3, 0, 1, 0, 8, 0, 0, 0, 0, 0, 3, 0, 0, 0, 0] ++
      idleOwed 10 s₂ ∧
    c'.phase = .parseReq (track 64 10 (serAll s₂)) .reading ∧
    hsCount c'.env.tr.events = 1 ∧ c'.env.tr.input = [] := by
  obtain ⟨c', fin, d1, s2, hrun, ho⟩ := unread_filter_e2e (p := preFK) (recs := recsFK)
    (content := [65, 66]) (srecs := fS) (content2 := [120, 121, 122]) (drecs := fD) (b := 64) (mc := 10)
    (st := .complete 3) (more := []) (t := fgT) (fuel := 20) recsFK_wf rfl (by decide) (fun q hq => by cases hq)
    (recsFK_fits _) fS_ok (fS_fits _) fD_ok fD_fits fD_noBegin rfl ⟨by decide, by decide, rfl, by decide⟩ rfl
    (by decide) (by decide +kernel)
  rcases ho.final with ⟨h, _⟩ | ⟨_, hfin, hph, hin, _⟩
  · exact absurd h (by decide)
  · subst hfin
    refine ⟨c', d1, s2, hrun, ho.split, ?_, hph, ho.one_handler.1, hin⟩
    rw [ho.log]
    show [] ++ (owedPreamble preFK 10 recsFK ++ (owedStream 1 5 10 fS ++ owedStream 1 8 10 d1) ++
      epilogue 1 (.complete 3) ++ idleOwed 10 s2) = _
    have h1 : owedPreamble preFK 10 recsFK = [] := by decide +kernel
    have h2 : owedStream 1 5 10 fS = [] := by decide +kernel
    rw [h1, h2]
    simp only [List.nil_append, List.append_assoc]
    rfl

/-- `unread_prefix_write_e2e` applied to the request of `Props/C07E2E` with the Stdin stream `nS`
(a management `GetValues` record, `"ABC"`, an unknown-type record, the terminator): the handler reads
up to 2 bytes, writes `"hi"` to Stdout and returns `Complete(3)`.  Replayed
(`# case c07-prefix-write-*`): with `rd=10,P,7,A,3` model driver and crate print `… HS(1,1,41:62)
W32:32 R61:29 r=2:4142 o=w0 V8+2+6:16 W=ok HE(ok:complete:3) W16:16 W32:32 R64:W STALL` — `O₁` = the
`GetValues` reply, then the Stdout record, then `O₂` = the unknown-type reply (generated by
`record_boundary()`, which swallowed the whole buffered stream), then the epilogue.  With
`rd=10,P,7,55,26,34,7,A` the `read` returns 1 byte while the `GetValues` reply is still queued in the
parser: the Stdout record comes FIRST (`O₁ = []`), the reply after it (`O₂`), then the epilogue, and
the unknown-type reply after the epilogue (`s₂`). -/
example : ∃ c' s₁ s₂ O₁ O₂ d, runTask 20 (connS 64 10 nT [(readThenWrite 2 [104, 105] (.complete 3), true)]) 0 none =
      (c', "STALL") ∧
    nS = s₁ ++ s₂ ∧ O₁ ++ O₂ = owedStream 1 5 10 s₁ ∧ d <+: ([65, 66, 67] : Bytes) ∧ d ≠ [] ∧
    c'.env.tr.wlog = owedPreamble pre 10 recs ++ O₁ ++ [1, 6, 0, 1, 0, 2, 6, 0, 104, 105, 0, 0, 0, 0, 0, 0] ++ O₂ ++
      [1, 6, 0, 1, 0, 0, 0, 0, 1, 7, 0, 1, 0, 0, 0, 0, 1, 3, 0, 1, 0, 8, 0, 0, 0, 0, 0, 3, 0, 0, 0, 0] ++
      owedStream 1 5 10 s₂ ∧
    hsCount c'.env.tr.events = 1 ∧ c'.env.tr.input = [] := by
  obtain ⟨c', fin, s1, s2, O1, O2, d, hrun, ho⟩ := unread_prefix_write_e2e (p := pre) (recs := recs)
    (content := [65, 66, 67]) (srecs := nS) (b := 64) (mc := 10) (n := 2) (data := [104, 105]) (st := .complete 3)
    (more := []) (t := nT) (fuel := 20)
    (by decide) recs_wf rfl (by decide) (pre_pairs_fit 64) (noise_fits 64) nS_ok nS_fits
    nS_noBegin rfl ⟨by decide, by decide, rfl, by decide⟩ rfl (by decide) (by decide +kernel) (by decide)
  rcases ho.final with ⟨h, _⟩ | ⟨_, hfin, _, hin, _⟩
  · exact absurd h (by decide)
  · subst hfin
    refine ⟨c', s1, s2, O1, O2, d, hrun, ho.split, ho.owed, ho.read.1, fun hd => absurd (ho.read.2.1 hd) (by decide), ?_,
      ho.one_handler.1, hin⟩
    rw [ho.log]
    show [] ++ (owedPreamble pre 10 recs ++ O1 ++ streamRecords 6 1 [104, 105] ++ O2 ++ epilogue 1 (.complete 3) ++
      owedStream 1 5 10 s2) = _
    rw [List.nil_append]
    rfl

end Example

end Fcgi.C07U
