import Fcgi.Model.CgiName
open Fcgi Fcgi.CgiName
example : "HTTP_".toUTF8.toList = [72, 84, 84, 80, 95] := by decide +kernel
example : "HTTP_".toUTF8.toList = [72, 84, 84, 80, 95] := by simp
example : "HTTP_".toUTF8.toList = [72, 84, 84, 80, 95] := by
  simp [String.toUTF8, ByteArray.toList]
#print String.toUTF8
#print ByteArray.toList
#check @String.toByteArray
