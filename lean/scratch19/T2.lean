import Fcgi.Model.CgiName
open Fcgi Fcgi.CgiName

theorem table_length : CgiName.table.length = 122 := by decide +kernel
theorem table_nodup : CgiName.table.Nodup := by decide +kernel
theorem table_upper_fixed : ∀ s ∈ CgiName.table, upper s = s := by decide +kernel
theorem table_no_ff : ∀ s ∈ CgiName.table, (255 : UInt8) ∉ s := by decide +kernel
example : fromCompact [99, 111, 110, 116, 101, 110, 116, 95, 108, 101, 110, 103, 116, 104] = .static 1 := by decide +kernel
example : "HTTP_".toUTF8.toList = [72, 84, 84, 80, 95] := by decide
example : "HTTP_".toUTF8.toList = [72, 84, 84, 80, 95] := by rfl
