import Fcgi.Model.CgiName
open Fcgi Fcgi.CgiName

theorem lower_eq_iff_upper_eq (x y : UInt8) : lowerByte x = lowerByte y ↔ upperByte x = upperByte y := by
  simp only [lowerByte, upperByte, ← UInt8.toNat_inj]
  split <;> split <;> split <;> split <;> simp [UInt8.toNat_ofNat'] <;> omega

theorem upperByte_idem (x : UInt8) : upperByte (upperByte x) = upperByte x := by
  simp only [upperByte, ← UInt8.toNat_inj]
  split <;> (try split) <;> simp_all [UInt8.toNat_ofNat'] <;> omega
