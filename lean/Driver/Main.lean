import Fcgi
/-!
# Line-protocol driver

Reads one operation per line on stdin, executes the *model's* definitions, writes exactly one
observation line per input line on stdout.  Lines starting with `#` are echoed (case markers).
The Rust harness writes the same operations and the implementation's observations in the same
format; `./check` diffs the two streams.
-/
open Fcgi

structure DState where
  dummy : Unit := ()

def natArg (s : String) : Option Nat := s.toNat?

def showPairs (ps : List (Bytes × Bytes)) : String :=
  if ps.isEmpty then "-" else String.intercalate "," (ps.map fun p => hexOrDash p.1 ++ ":" ++ hexOrDash p.2)

def stepVarInt (args : List String) : Option String :=
  match args with
  | ["vi.dec", h] => do
    let bs ← bytesOfHex h
    match VarInt.decode bs with
    | some (v, r) => some s!"ok {v} {r.length}"
    | none => some "eof"
  | ["vi.enc", n] => do
    let v ← natArg n
    some (hexOfBytes (VarInt.encode v))
  | ["vi.u32", n] => do
    let v ← natArg n
    match VarInt.tryFromU32 v with
    | some x => some s!"ok {x}"
    | none => some "err"
  | ["vi.usize", n] => do
    let v ← natArg n
    match VarInt.tryFromUsize v with
    | some x => some s!"ok {x}"
    | none => some "err"
  | _ => none

def stepNV (args : List String) : Option String :=
  match args with
  | ["nv.all", h] => do
    let bs ← bytesOfHex h
    let (ps, r) := NV.all bs
    some s!"{ps.length} {showPairs ps} rest={r.length} hint={NV.sizeHint bs} guards={NV.nextGuards bs}"
  | ["nv.next", h] => do
    let bs ← bytesOfHex h
    match NV.next bs with
    | some ((n, v), r) => some s!"some {hexOrDash n} {hexOrDash v} rest={r.length}"
    | none => some "none"
  | ["nv.write", cap, n, v] => do
    let nb ← bytesOfHex n
    let vb ← bytesOfHex v
    let sink ← (if cap == "vec" then some (Sink.vec []) else (natArg cap).map Sink.slice)
    let (s, r) := NV.write nb vb sink
    let rs := match r with
      | .ok k => s!"ok {k}"
      | .error .invalidInput => "err invalid-input"
      | .error .writeZero => "err write-zero"
    some s!"{rs} out={hexOrDash s.out}"
  | _ => none

def step (st : DState) (line : String) : DState × String :=
  if line.startsWith "#" then (st, line) else
  let args := (line.splitOn " ").filter (· ≠ "")
  match stepVarInt args with
  | some o => (st, o)
  | none =>
  match stepNV args with
  | some o => (st, o)
  | none => (st, "bad-op")

partial def loop (h : IO.FS.Stream) (out : IO.FS.Stream) (st : DState) : IO Unit := do
  let line ← h.getLine
  if line.isEmpty then return ()
  let l := (line.dropEndWhile (fun c => c == '\n' || c == '\r')).toString
  let (st', o) := step st l
  out.putStrLn o
  loop h out st'

def main : IO Unit := do
  let stdin ← IO.getStdin
  let stdout ← IO.getStdout
  loop stdin stdout {}
