import Fcgi
/-!
# Line-protocol driver

Reads one operation per line on stdin, executes the *model's* definitions, writes exactly one
observation line per input line on stdout.  Lines starting with `#` are echoed (case markers).
The Rust harness writes the same operations and the implementation's observations in the same
format; `./check` diffs the two streams.
-/
open Fcgi

inductive Cur
  | none
  | req (p : Req.Parser)
  | str (p : Str.Parser)

structure AState where
  req : Option Async.AReq := none
  writers : List (Option Async.Writer) := []
  mutex : Async.MutexSt := none
  tr : Async.Transport := { input := [], endMode := .eof, rd := [], wr := [], fl := [] }
  wfut : Option Bool := none                       -- writeable() future alive: started?
  close : Option (Async.CloseSt × ExitStatus) := none
  wlogSeen : Nat := 0

structure KState where
  sem : Runner.Sem := { count := 0 }
  max : Nat := 0
  acqs : List (Option Runner.Acq) := []       -- pending get_token futures
  owners : List (Nat × Nat) := []            -- listener id ↦ future index
  tokens : List Bool := []                    -- live tokens
  wg : Runner.WG := Runner.WG.init 0
  wgWakes : Nat := 0
  /-- wake-ups that went to the second waker (`g.poll2`), and which waker registered last (0 / 1) -/
  wgWakesB : Nat := 0
  wgReg : Nat := 0

structure DState where
  cur : Cur := .none
  a : AState := {}
  k : KState := {}

def natArg (s : String) : Option Nat := s.toNat?

def showPairs (ps : List (Bytes × Bytes)) : String :=
  if ps.isEmpty then "-" else String.intercalate "," (ps.map fun p => hexOrDash p.1 ++ ":" ++ hexOrDash p.2)

def stepVarInt (args : List String) : Option String :=
  match args with
  | ["vi.dec", h] => do
    let bs ← bytesOfHex h
    match VarInt.decode bs with
    | some (v, r) => some s!"ok {v} {r.length}"
    | none => some "eof"
  | ["vi.decr", h, k] => do
    -- the same decoder behind a reader that hands out at most `k ≥ 1` bytes per `read` call: `read_exact`
    -- loops, so the result is the same function of the bytes
    let bs ← bytesOfHex h
    let _ ← natArg k
    match VarInt.decode bs with
    | some (v, r) => some s!"ok {v} {r.length}"
    | none => some "eof"
  | ["vi.enc", n] => do
    let v ← natArg n
    some (hexOfBytes (VarInt.encode v))
  | ["vi.encw", n, _] => do
    let v ← natArg n
    if v ≤ VarInt.maxVal then some (hexOfBytes (VarInt.encode v)) else some "not-a-varint"
  | ["vi.u32", n] => do
    let v ← natArg n
    match VarInt.tryFromU32 v with
    | some x => some s!"ok {x}"
    | none => some "err"
  | ["vi.usize", n] => do
    let v ← natArg n
    match VarInt.tryFromUsize v with
    | some x => some s!"ok {x}"
    | none => some "err"
  | _ => none

def stepNV (args : List String) : Option String :=
  match args with
  | ["nv.all", h] => do
    let bs ← bytesOfHex h
    let (ps, r) := NV.all bs
    some s!"{ps.length} {showPairs ps} rest={r.length} hint={NV.sizeHint bs} guards={NV.nextGuards bs}"
  | ["nv.next", h] => do
    let bs ← bytesOfHex h
    match NV.next bs with
    | some ((n, v), r) => some s!"some {hexOrDash n} {hexOrDash v} rest={r.length}"
    | none => some "none"
  | ["nv.write", cap, n, v] => do
    let nb ← bytesOfHex n
    let vb ← bytesOfHex v
    -- `drip<k>`: a growable writer that accepts at most k bytes per `write` call — for `write_all` the same as a `Vec`
    let sink ← (if cap == "vec" || cap.startsWith "drip" then some (Sink.vec []) else (natArg cap).map Sink.slice)
    let (s, r) := NV.write nb vb sink
    let rs := match r with
      | .ok k => s!"ok {k}"
      | .error .invalidInput => "err invalid-input"
      | .error .writeZero => "err write-zero"
    some s!"{rs} out={hexOrDash s.out}"
  | _ => none


def parsePairs (s : String) : Option (List (Bytes × Bytes)) :=
  if s == "-" then some [] else
  (s.splitOn ",").mapM fun item =>
    match item.splitOn ":" with
    | [a, b] => do
      let x ← bytesOfHex a
      let y ← bytesOfHex b
      some (x, y)
    | _ => none

def showOrd : Ordering → String
  | .lt => "lt" | .eq => "eq" | .gt => "gt"

def showOptNat : Option Nat → String
  | none => "none" | some n => toString n

def parseOptNat (s : String) : Option (Option Nat) :=
  if s == "none" then some none else (natArg s).map some

def showCsv (l : List Nat) : String := if l.isEmpty then "-" else String.intercalate "," (l.map toString)

def showProtoErr : ProtoErr → String
  | .unknownVersion v => s!"err version {v.toNat}"
  | .unknownRecordType t => s!"err rtype {t.toNat}"
  | .unknownRole r => s!"err role {r}"
  | .unknownStatus x => s!"err status {x.toNat}"

def stepProto (args : List String) : Option String :=
  match args with
  | ["hdr.dec", h] => do
    let bs ← bytesOfHex h
    match RecordHeader.fromBytes bs with
    | none => some "short"
    | some (.error e) => some (showProtoErr e)
    | some (.ok hd) => some s!"ok {hd.rtype} {hd.requestId} {hd.contentLength} {hd.paddingLength} mgmt={hd.isManagement} re={hexOfBytes hd.toBytes}"
  | ["hdr.enc", t, i, c, p] => do
    let hd : RecordHeader := { rtype := ← natArg t, requestId := ← natArg i, contentLength := ← natArg c, paddingLength := ← natArg p }
    some (hexOfBytes hd.toBytes)
  | ["hdr.setlen", c] => do
    let n ← natArg c
    let hd := (RecordHeader.new RT.stdin 1).setLengths n
    some s!"{hd.contentLength} {hd.paddingLength}"
  | ["hdr.setlen2", c1, c2] => do
    let hd := ((RecordHeader.new RT.stdout 1).setLengths (← natArg c1)).setLengths (← natArg c2)
    some s!"{hd.contentLength} {hd.paddingLength}"
  | ["begin.dec", h] => do
    let bs ← bytesOfHex h
    match BeginRequest.fromBytes bs with
    | none => some "short"
    | some (.error e) => some (showProtoErr e)
    | some (.ok b) => some s!"ok {b.role} {b.flags.toNat} re={hexOfBytes b.toBytes}"
  | ["begin.rec", r, f, i] => do
    let b : BeginRequest := { role := ← natArg r, flags := UInt8.ofNat (← natArg f) }
    some (hexOfBytes (b.toRecord (← natArg i)))
  | ["end.dec", h] => do
    let bs ← bytesOfHex h
    match EndRequest.fromBytes bs with
    | none => some "short"
    | some (.error e) => some (showProtoErr e)
    | some (.ok e) => some s!"ok {e.appStatus} {e.protocolStatus} re={hexOfBytes e.toBytes}"
  | ["end.rec", a, ps, i] => do
    let e : EndRequest := { appStatus := ← natArg a, protocolStatus := ← natArg ps }
    some (hexOfBytes (e.toRecord (← natArg i)))
  | ["unk.dec", h] => do
    let bs ← bytesOfHex h
    match UnknownType.fromBytes bs with
    | none => some "short"
    | some t => some s!"ok {t.toNat} re={hexOfBytes (UnknownType.toBytes t)}"
  | ["unk.rec", t, i] => do
    some (hexOfBytes (UnknownType.toRecord (UInt8.ofNat (← natArg t)) (← natArg i)))
  | ["exit.map", k, c] => do
    let code ← natArg c
    let st ← (match k with
      | "complete" => some (ExitStatus.complete code)
      | "overloaded" => some ExitStatus.overloaded
      | "unknownrole" => some ExitStatus.unknownRole
      | "abort" => some ExitStatus.abort
      | "success" => some (ExitStatus.complete 0)
      | _ => none)
    let e := st.toEndRequest
    some s!"{e.appStatus} {e.protocolStatus}"
  | ["vars.name", h] => do
    let bs ← bytesOfHex h
    match Vars.parseName bs with
    | some b => some s!"ok {b}"
    | none => some "unknown"
  | ["vars.resp", set, mc, pre, _target] => do
    let preb ← bytesOfHex pre
    let (out, n) := Vars.writeResponse (← natArg set) preb (← natArg mc)
    some s!"{n} {hexOfBytes (out.drop preb.length)} preserved={out.take preb.length == preb}"
  | ["cfg.aligned", b] => do
    some (toString (alignedBufsize (← natArg b)))
  | ["role.streams", r] => do
    let role ← natArg r
    some s!"in={showCsv (inputStreams role)} out={showCsv (outputStreams role)}"
  | ["role.next", r, c] => do
    some (showOptNat (nextInputStream (← natArg r) (← parseOptNat c)))
  | _ => none

def showOwned (o : CgiName.Owned) : String := hexOrDash o.asRef

def mkOwned (ctor : String) (arg : String) : Option CgiName.Owned :=
  match ctor with
  | "str" | "varname" | "toowned" | "cowb" => (bytesOfHex arg).map CgiName.fromStr
  | "string" | "box" | "cowo" | "mutstr" => (bytesOfHex arg).map CgiName.fromCompact
  | "static" => (bytesOfHex arg).bind fun b => (CgiName.lookup b).map CgiName.Owned.static
  | "header" => (bytesOfHex arg).map CgiName.fromHeaderName
  | _ => none

def stepName (args : List String) : Option String :=
  match args with
  | ["name.rel", a, b] => do
    let x ← bytesOfHex a
    let y ← bytesOfHex b
    some s!"eq={CgiName.eqIgnoreCase x y} cmp={showOrd (CgiName.cmp x y)} heq={CgiName.hashWrites x == CgiName.hashWrites y}"
  | ["name.hash", a] => do
    let x ← bytesOfHex a
    some (String.intercalate "|" ((CgiName.hashWrites x).map hexOfBytes))
  | ["static.parse", a] => do
    let x ← bytesOfHex a
    match CgiName.lookup x with
    | some i => some s!"ok {hexOrDash (CgiName.table.getD i [])}"
    | none => some "err"
  | ["owned.mk", c, a] => do
    let o ← mkOwned c a
    some (showOwned o)
  | ["owned.rel", c1, a, c2, b] => do
    let x ← mkOwned c1 a
    let y ← mkOwned c2 b
    some s!"eq={x.eq y} cmp={showOrd (x.cmp y)} heq={x.hashWrites == y.hashWrites} a={showOwned x} b={showOwned y}"
  | _ => none

def parseSink (cap : String) : Option Sink :=
  if cap == "vec" || cap.startsWith "drip" then some (Sink.vec []) else (natArg cap).map Sink.slice

def stepResp (args : List String) : Option String :=
  match args with
  | ["resp.redirect", cap, loc] => do
    let w ← parseSink cap
    let l ← bytesOfHex loc
    match Response.simpleRedirect w l with
    | (w', some n) => some s!"ok {n} out={hexOrDash w'.out}"
    | (w', none) => some s!"err out={hexOrDash w'.out}"
  | [op, cap, code, reason, hs] => do
    if op != "resp.headers" && op != "resp.httph" then none
    let w ← parseSink cap
    let c ← natArg code
    let r ← (if reason == "none" then some none else (bytesOfHex reason).map some)
    let hdrs ← parsePairs hs
    -- documented precondition of `write_headers` ("`Status` … must not be used in `headers`. This is verified by a debug assertion"):
    -- the harness builds the crate with debug assertions on, so a reserved name is a panic on both sides; the theorems of C20 are
    -- about header lists that satisfy the precondition
    let lower (b : UInt8) : UInt8 := if 65 ≤ b.toNat && b.toNat ≤ 90 then b + 32 else b
    if hdrs.any (fun nv => nv.1.map lower == [115, 116, 97, 116, 117, 115]) then some "panic" else
    match Response.writeHeaders w c r hdrs with
    | (w', some n) => some s!"ok {n} out={hexOrDash w'.out}"
    | (w', none) => some s!"err out={hexOrDash w'.out}"
  | _ => none

def showPErr : Req.PErr → String
  | .paniced => "paniced" | .stuckOnInput => "stuck" | .interrupted => "interrupted"
  | .unknownVersion v => s!"version:{v.toNat}" | .invalidRequestLen n => s!"reqlen:{n}"
  | .nullRequest => "nullreq" | .abortRequest => "abort" | .protocol => "protocol"

def showEnv (env : List (Bytes × Bytes)) : String :=
  if env.isEmpty then "-" else
  let items := env.map (fun e => hexOrDash e.1 ++ ":" ++ hexOrDash e.2)
  String.intercalate "," (items.mergeSort (fun a b => decide (a ≤ b)))

def showReq (r : Req.Request) : String :=
  -- `acc=ok`: the accessor API (env_len / contains_var / get_var / get_var_str) agrees with the iterator — in the model the
  -- environment *is* the association list, so there is nothing else it could say
  s!"id={r.id} role={r.role} flags={r.flags.toNat} env={showEnv r.env} acc=ok"

def showIntoRequest (p : Req.Parser) : String :=
  match p.intoRequest with
  | .ok (r, left) => s!"ok {showReq r} left={hexOrDash left}"
  | .error e => s!"err {showPErr e}"

def showOptStream : Option Nat → String
  | none => "none" | some n => toString n

def showStrState (p : Str.Parser) : String :=
  s!"buf={hexOrDash p.parsed} outbuf={hexOrDash p.output} free={p.free} boundary={p.isRecordBoundary} active={showOptStream p.stream}"

def stepParser (st : DState) (args : List String) : Option (DState × String) :=
  match args with
  | ["req.new", b, mc] => do
    let p := Req.Parser.new (← natArg b) (← natArg mc)
    some ({ st with cur := .req p }, s!"free={p.free}")
  | ["req.feed", h] => do
    let bs ← bytesOfHex h
    match st.cur with
    | .req p =>
      match p.parse bs with
      | (p', some y) => some ({ st with cur := .req p' }, s!"done={y.done} out={hexOrDash y.output} free={p'.free}")
      | (p', none) => some ({ st with cur := .req p' }, "panic")
    | _ => some (st, "no-parser")
  | ["req.peek"] =>
    match st.cur with
    | .req p => some (st, showIntoRequest p)
    | _ => some (st, "no-parser")
  | ["req.into_request"] =>
    match st.cur with
    | .req p => some ({ st with cur := .none }, showIntoRequest p)
    | _ => some (st, "no-parser")
  | ["req.into_stream"] =>
    match st.cur with
    | .req p =>
      match p.intoStreamParser with
      | .ok sp => some ({ st with cur := .str sp }, s!"ok {showReq sp.request} {showStrState sp}")
      | .error e => some ({ st with cur := .none }, s!"err {showPErr e}")
    | _ => some (st, "no-parser")
  | ["req.to_stream_new", b, mc] => do
    let b ← natArg b
    let mc ← natArg mc
    match st.cur with
    | .req p =>
      match p.intoRequest with
      | .ok (r, left) =>
        -- `stream::Parser::new(config, request)` = `from_parser` with a fresh, empty buffer of the aligned size
        let sp := Str.Parser.fromParser (alignedBufsize b) r [] mc
        some ({ st with cur := .str sp }, s!"ok {showReq sp.request} {showStrState sp} left={hexOrDash left}")
      | .error e => some ({ st with cur := .none }, s!"err {showPErr e}")
    | _ => some (st, "no-parser")
  | ["str.parse", h, d] => do
    let bs ← bytesOfHex h
    let dest ← parseOptNat d
    match st.cur with
    | .str p =>
      match p.parse bs dest with
      | (p', .ok r) => some ({ st with cur := .str p' },
          s!"ok stream={r.stream} end={r.streamEnd} out={r.output} data={hexOrDash r.delivered} {showStrState p'}")
      | (p', .err e) => some ({ st with cur := .str p' }, s!"err {showPErr e} {showStrState p'}")
      | (p', .panic _) => some ({ st with cur := .str p' }, "panic")
    | _ => some (st, "no-parser")
  | ["str.consume", k] => do
    match st.cur with
    | .str p => let p' := p.consumeStream (← natArg k); some ({ st with cur := .str p' }, showStrState p')
    | _ => some (st, "no-parser")
  | ["str.compress"] =>
    match st.cur with
    | .str p => let p' := p.compress; some ({ st with cur := .str p' }, showStrState p')
    | _ => some (st, "no-parser")
  | ["str.consume_output", k] => do
    match st.cur with
    | .str p => let p' := p.consumeOutput (← natArg k); some ({ st with cur := .str p' }, showStrState p')
    | _ => some (st, "no-parser")
  | ["str.set_stream", s] => do
    let sv ← parseOptNat s
    match st.cur with
    | .str p =>
      match p.setStream sv with
      | .ok p' => some ({ st with cur := .str p' }, s!"ok {showStrState p'}")
      | .rejected => some (st, s!"rejected {showStrState p}")
      | .panic _ => some (st, s!"panic {showStrState p}")
    | _ => some (st, "no-parser")
  | ["str.peek_input"] =>
    match st.cur with
    | .str p =>
      match p.intoInput with
      | .ok bs => some (st, s!"ok {hexOrDash bs}")
      | .error e => some (st, s!"err {showPErr e}")
    | _ => some (st, "no-parser")
  | ["str.into_input"] =>
    match st.cur with
    | .str p =>
      match p.intoInput with
      | .ok bs => some ({ st with cur := .none }, s!"ok {hexOrDash bs}")
      | .error e => some ({ st with cur := .none }, s!"err {showPErr e}")
    | _ => some (st, "no-parser")
  | ["str.into_req"] =>
    match st.cur with
    | .str p =>
      match p.intoRequestParser with
      | some (.ok rp) => some ({ st with cur := .req rp }, s!"ok free={rp.free}")
      | some (.error e) => some ({ st with cur := .none }, s!"err {showPErr e}")
      | none => some ({ st with cur := .none }, "panic")
    | _ => some (st, "no-parser")
  | _ => none

open Async in
def showIoErr : IoErr → String
  | .connectionAborted => "aborted" | .invalidData => "invalid" | .other => "other" | .unexpectedEof => "eof"
  | .writeZero => "writezero" | .connectionReset => "reset" | .transportRead => "tread"
  | .transportWrite => "twrite" | .transportFlush => "tflush" | .writersAlive => "writers"
  | .abortRequest => "abort-request"

def parseAnsList (s : String) (f : String → Option α) : Option (List α) :=
  if s == "-" then some [] else (s.splitOn ",").mapM f

def parseRd (s : String) : Option Async.RdAns :=
  if s == "A" then some .all else if s == "P" then some .pending else if s == "E" then some .err else (natArg s).map .n
def parseWr (s : String) : Option Async.WrAns :=
  if s == "A" then some .all else if s == "P" then some .pending else if s == "Z" then some .zero
  else if s == "E" then some .err else (natArg s).map .n
def parseFl (s : String) : Option Async.FlAns :=
  if s == "O" then some .ok else if s == "P" then some .pending else if s == "E" then some .err else none

def kv (args : List String) (key : String) : Option String :=
  args.findSome? fun a => if a.startsWith (key ++ "=") then some ((a.drop (key.length + 1)).toString) else none

/-- common observation suffix: writeable flag, transport events of this op, bytes written during this op -/
def aSuffix (a : AState) : AState × String :=
  let evs := if a.tr.events.isEmpty then "-" else String.intercalate "," a.tr.events
  let wd := a.tr.wlog.drop a.wlogSeen
  let w := match a.req, a.wfut, a.close with
    | some r, none, none => toString r.writeable
    | some _, some _, none => "?"
    | _, _, _ => "-"
  ({ a with tr := { a.tr with events := [] }, wlogSeen := a.tr.wlog.length }, s!" w={w} ev={evs} wd={hexOrDash wd}")

def parseStatus (k c : String) : Option ExitStatus := do
  let code ← natArg c
  match k with
  | "complete" => some (.complete code)
  | "overloaded" => some .overloaded
  | "unknownrole" => some .unknownRole
  | "abort" => some .abort
  | _ => none

def updWriter (ws : List (Option Async.Writer)) (i : Nat) (w : Option Async.Writer) : List (Option Async.Writer) :=
  ws.set i w

def stepAsync (st : DState) (args : List String) : Option (DState × String) :=
  let a := st.a
  let fin (a : AState) (o : String) : Option (DState × String) :=
    let (a, suf) := aSuffix a
    some ({ st with a := a }, o ++ suf)
  match args with
  | "a.new" :: b :: mc :: id :: role :: flags :: rest => do
    let inp ← bytesOfHex (← kv rest "in")
    let la ← natArg (← kv rest "la")
    let endMode ← (match (← kv rest "end") with | "eof" => some Async.EndMode.eof | "pend" => some .pend | "err" => some .err | _ => none)
    let rd ← parseAnsList (← kv rest "rd") parseRd
    let wr ← parseAnsList (← kv rest "wr") parseWr
    let fl ← parseAnsList (← kv rest "fl") parseFl
    let rid ← natArg id
    let rp := Req.Parser.new (← natArg b) (← natArg mc)
    let pre := (BeginRequest.toRecord { role := ← natArg role, flags := UInt8.ofNat (← natArg flags) } rid) ++
      RecordHeader.toBytes { rtype := RT.params, requestId := rid, contentLength := 0, paddingLength := 0 }
    match rp.parse (pre ++ inp.take la) with
    | (rp', some _) =>
      match rp'.intoStreamParser with
      | .ok sp =>
        let r := Async.AReq.new sp
        let a : AState := { req := some r, tr := { input := inp.drop la, endMode, rd, wr, fl, abortKind := (kv rest "ek") == some "a" } }
        let (a, suf) := aSuffix a
        some ({ st with a := a }, s!"ok active={showOptStream sp.stream}" ++ suf)
      | .error e => some (st, s!"err {showPErr e}")
    | (_, none) => some (st, "panic")
  | ["a.read", n] => do
    let k ← natArg n
    match a.req, a.wfut, a.close with
    | some r, none, none =>
      let (r, m, t, res) := r.pollInput (some k) a.mutex a.tr
      let o := match res with
        | .ready n d => s!"ready {n} {hexOrDash d}" | .pending => "pending" | .err e => s!"err {showIoErr e}" | .panic _ => "panic"
      fin { a with req := some r, mutex := m, tr := t } o
    | _, _, _ => some (st, "busy")
  | ["a.fill"] =>
    match a.req, a.wfut, a.close with
    | some r, none, none =>
      let (r, m, t, res) := r.pollInput none a.mutex a.tr
      let o := match res with
        | .ready _ _ => s!"ready {r.sp.parsed.length} {hexOrDash r.sp.parsed}" | .pending => "pending" | .err e => s!"err {showIoErr e}" | .panic _ => "panic"
      fin { a with req := some r, mutex := m, tr := t } o
    | _, _, _ => some (st, "busy")
  | ["a.consume", k] => do
    match a.req, a.wfut, a.close with
    | some r, none, none =>
      let r := { r with sp := r.sp.consumeStream (← natArg k) }
      fin { a with req := some r } "ok"
    | _, _, _ => some (st, "busy")
  | ["a.set_stream", t] => do
    match a.req, a.wfut, a.close with
    | some r, none, none =>
      match r.setStream (← natArg t) with
      | some r' => fin { a with req := some r' } s!"ok active={showOptStream r'.sp.stream}"
      | none => fin a "panic"
    | _, _, _ => some (st, "busy")
  | ["a.writeable"] =>
    match a.req, a.close with
    | some r, none =>
      let started := a.wfut.getD false
      let (r, started', m, t, res) := r.writeablePoll started a.mutex a.tr
      let (o, wf) := match res with
        | .ready => ("ready", none) | .pending => ("pending", some started') | .err e => (s!"err {showIoErr e}", none) | .panic _ => ("panic", none)
      fin { a with req := some r, mutex := m, tr := t, wfut := wf } o
    | _, _ => some (st, "busy")
  | ["a.open", t] => do
    let ty ← natArg t
    match a.req with
    | some r =>
      if !(outputStreams r.sp.request.role).contains ty || !r.writeable then fin a "panic"
      else fin { a with writers := a.writers ++ [some { rtype := ty, id := r.sp.request.id }] } s!"w{a.writers.length}"
    | none => some (st, "busy")
  | ["a.clone", i] => do
    match a.writers.getD (← natArg i) none with
    | some w => fin { a with writers := a.writers ++ [some w.clone] } s!"w{a.writers.length}"
    | none => some (st, "no-writer")
  | ["a.wpoll", i, h] => do
    let idx ← natArg i
    let buf ← bytesOfHex h
    match a.writers.getD idx none with
    | some w =>
      let (w, m, t, res) := w.pollWrite idx buf a.mutex a.tr
      let o := match res with | .ready n => s!"ready {n}" | .pending => "pending" | .err e => s!"err {showIoErr e}" | .panic _ => "panic"
      fin { a with writers := updWriter a.writers idx (some w), mutex := m, tr := t } o
    | none => some (st, "no-writer")
  | ["a.fpoll", i] => do
    let idx ← natArg i
    match a.writers.getD idx none with
    | some w =>
      let (w, m, t, res) := w.pollFlush idx a.mutex a.tr
      let o := match res with | .ready _ => "ready" | .pending => "pending" | .err e => s!"err {showIoErr e}" | .panic _ => "panic"
      fin { a with writers := updWriter a.writers idx (some w), mutex := m, tr := t } o
    | none => some (st, "no-writer")
  | ["a.cpoll", i] => do   -- `StreamWriter::poll_close`: `Poll::Ready(Ok(()))`, no state change, no I/O
    match a.writers.getD (← natArg i) none with
    | some _ => fin a "ready"
    | none => some (st, "no-writer")
  | ["a.drop", i] => do
    let idx ← natArg i
    match a.writers.getD idx none with
    | some w => fin { a with writers := updWriter a.writers idx none, mutex := Async.lockDrop w.lock a.mutex } "ok"
    | none => some (st, "no-writer")
  | ["a.close", k, c] => do
    let status ← parseStatus k c
    match a.req, a.wfut with
    | some r, none =>
      let (cs, status) := a.close.getD (.start, status)
      let alive := (a.writers.filter Option.isSome).length
      let (r, cs, m, t, res) := Async.closePoll r cs status alive a.mutex a.tr
      match res with
      | .pending => fin { a with req := some r, mutex := m, tr := t, close := some (cs, status) } "pending"
      | .err e => fin { a with req := none, mutex := m, tr := t, close := none } s!"err {showIoErr e}"
      | .panic _ => fin { a with req := none, mutex := m, tr := t, close := none } "panic"
      | .reuse rp =>
        let (a', suf) := aSuffix { a with req := none, mutex := m, tr := t, close := none }
        some ({ st with a := a', cur := .req rp }, s!"reuse free={rp.free}" ++ suf)
    | _, _ => some (st, "busy")
  | _ => none

open Run in
def parseHOp (tok : String) : Option HOp :=
  let body := (tok.drop 1).toString
  match tok.front with
  | 'r' => (natArg body).map .read
  | 'R' => some .readAll
  | 'f' => some .fill
  | 'c' => (natArg body).map .consume
  | 's' => (natArg body).map .setStream
  | 'w' => some .writeable
  | 'o' => (natArg body).map .open_
  | 'd' => (natArg body).map .dropW
  | 'F' => (natArg body).map .flush
  | 'W' => match body.splitOn ":" with
    | [i, h] => do some (.writeAll (← natArg i) (← bytesOfHex h))
    | _ => none
  | 'X' => match body.splitOn ":" with
    | [k, c] => (parseStatus k c).map .ret
    | _ => none
  | 'E' => match body with
    | "aborted" => some (.retErr .connectionAborted) | "invalid" => some (.retErr .invalidData) | "other" => some (.retErr .other)
    | "eof" => some (.retErr .unexpectedEof) | "twrite" => some (.retErr .transportWrite) | _ => none
  | _ => none

/-- `~op,op,...` = errors ignored; otherwise propagated -/
def parseScript (s : String) : Option (List Run.HOp × Bool) :=
  let (prop, body) := if s.startsWith "~" then (false, (s.drop 1).toString) else (true, s)
  if body == "-" then some ([], prop) else ((body.splitOn ",").mapM parseHOp).map (·, prop)

def parseGate1 (g : String) : Option Run.Gate :=
  if g.startsWith "X" then (bytesOfHex (g.drop 1).toString).map .hasRec
  else if g.startsWith "R" then (natArg (g.drop 1).toString).map .records
  else if g.startsWith "E" then (natArg (g.drop 1).toString).map .endreqs
  else if g.startsWith "I" then (natArg (g.drop 1).toString).map .endOf
  else (natArg g).map .bytes

def parseGate (g : String) : Option Run.Gate :=
  -- `a&b&c…`: right-nested conjunction
  match (g.splitOn "&").reverse with
  | [] => none
  | last :: rest => do
    let mut acc ← parseGate1 last
    for a in rest do
      acc := .both (← parseGate1 a) acc
    some acc

def parseSegs (s : String) : Option (List (Run.Gate × Bytes)) :=
  if s == "-" then some [] else
  (s.splitOn ",").mapM fun item =>
    match item.splitOn "@" with
    | [h, g] => do some (← parseGate g, ← bytesOfHex h)
    | [h] => do some (.bytes 0, ← bytesOfHex h)
    | _ => none

def stepRun (args : List String) : Option String :=
  match args with
  | "t.run" :: rest => do
    let b ← natArg (← kv rest "B")
    let mc ← natArg (← kv rest "mc")
    let segs ← parseSegs (← kv rest "in")
    let endMode ← (match (← kv rest "end") with | "eof" => some Async.EndMode.eof | "pend" => some .pend | "err" => some .err | _ => none)
    let rd ← parseAnsList (← kv rest "rd") parseRd
    let wr ← parseAnsList (← kv rest "wr") parseWr
    let fl ← parseAnsList (← kv rest "fl") parseFl
    let stopAt ← (match (← kv rest "stop") with | "none" => some none | x => (natArg x).map some)
    let hs ← ((← kv rest "h").splitOn ";").mapM parseScript
    let c : Run.Conn := { phase := .parseReq (Req.Parser.new b mc) .start,
                          env := { tr := { input := [], endMode, rd, wr, fl, abortKind := (kv rest "ek") == some "a" }, segs := segs }, scripts := hs }
    let (c, fin) := Run.runTask 100000 c 0 stopAt
    let gate := (kv rest "gt") == some "1" && stopAt.isNone
    let evs := String.intercalate " " (if gate then Run.gateTrace c.env.tr.events fin else c.env.tr.events)
    some s!"{evs} {fin} wlog={hexOrDash c.env.tr.wlog}"
  | _ => none

def kSuffix (k : KState) : String :=
  let live := (k.tokens.filter id).length
  let items := (List.range k.acqs.length).filterMap fun a =>
    match k.acqs.getD a none with
    | some _ =>
      let n := (k.sem.wakes.filter (fun lid => k.owners.any (fun o => o.1 == lid && o.2 == a))).length
      some s!"{a}:{n}"
    | none => none
  let ws := if items.isEmpty then "-" else String.intercalate "," items
  s!" live={live} free=? wakes={ws}"

def recordOwner (k : KState) (a : Nat) (acq : Runner.Acq) : KState :=
  match acq.listener with
  | some lid => if k.owners.any (·.1 == lid) then k else { k with owners := k.owners ++ [(lid, a)] }
  | none => k

/-- one poll of the shutdown future with waker `w` (0 = the first counting waker, 1 = a second one: `AtomicWaker::register`
replaces the stored waker, so a later wake-up goes to whichever polled last) -/
def gPollCore (k : KState) (w : Nat) : KState × String :=
  let run (g : Runner.WG) (s : Runner.WStep) : Runner.WG := (Runner.wgStep g s).getD g
  let g0 := k.wg
  let g1 := run g0 .pollUpgrade
  let g := if g1.pc == .upgraded then run (run (run g1 .pollRegister) .pollDropTemp) .pollWake else g1
  let reg := if g1.pc == .upgraded then w else k.wgReg
  let woke := g1.pc == .upgraded && g.wokenSinceRegister
  let tot := if woke then k.wgWakes + 1 else k.wgWakes
  let wb := if woke && reg == 1 then k.wgWakesB + 1 else k.wgWakesB
  let res := if g.lastPoll == some true then "ready" else "pending"
  ({ k with wg := g, wgWakes := tot, wgWakesB := wb, wgReg := reg }, s!"{res} wakes={tot} wb={wb}")

def stepRunner (st : DState) (args : List String) : Option (DState × String) :=
  let k := st.k
  let fin (k : KState) (o : String) : Option (DState × String) := some ({ st with k := k }, o ++ kSuffix k)
  match args with
  | ["k.new", mx, _clones] => do
    let m ← natArg mx
    fin { sem := { count := m }, max := m } "ok"
  | ["k.get", _c] => fin { k with acqs := k.acqs ++ [some {}] } s!"a{k.acqs.length}"
  | ["k.poll", a] => do
    let i ← natArg a
    match k.acqs.getD i none with
    | none => some (st, "no-future")
    | some acq =>
      let (sem, acq', got) := Runner.acqPoll 4 k.sem acq
      let k := recordOwner { k with sem := sem } i acq'
      if got then
        -- the completed future is dropped at once (its listener with it), then the token exists
        let sem := Runner.acqDrop k.sem acq'
        fin { k with sem := sem, acqs := k.acqs.set i none, tokens := k.tokens ++ [true] } s!"ready t{k.tokens.length}"
      else fin { k with acqs := k.acqs.set i (some acq') } "pending"
  | ["k.drop_pending", a] => do
    let i ← natArg a
    match k.acqs.getD i none with
    | none => some (st, "no-future")
    | some acq => fin { k with sem := Runner.acqDrop k.sem acq, acqs := k.acqs.set i none } "ok"
  | ["k.drop_token", t] | ["k.drop_token_u", t] => do
    let i ← natArg t
    if k.tokens.getD i false then fin { k with sem := Runner.release k.sem, tokens := k.tokens.set i false } "ok"
    else some (st, "no-token")
  | ["g.new", n] => do
    let m ← natArg n
    some ({ st with k := { k with wg := Runner.WG.init m, wgWakes := 0, wgWakesB := 0, wgReg := 0 } }, "ok")
  | ["g.new", n, c] => do
    -- a clone of the runner holding `c` tokens of its own: it shares the connection limit, NOT the wait group — the shutdown of the
    -- original is a function of the original's tokens alone, so the clone's side does not appear in the model state
    let m ← natArg n
    let _ ← natArg c
    some ({ st with k := { k with wg := Runner.WG.init m, wgWakes := 0, wgWakesB := 0, wgReg := 0 } }, "ok")
  | ["g.poll"] => let (k', o) := gPollCore k 0; some ({ st with k := k' }, o)
  | ["g.poll2"] => let (k', o) := gPollCore k 1; some ({ st with k := k' }, o)
  | ["g.pollh", pt, t] => do
    -- a poll during which token `t` is dropped on "another thread" exactly at scheduling point `pt`
    -- (1 = after upgrade, 2 = after the waker registration), via the cfg hook in WaitGroupFuture::poll
    let point ← natArg pt
    let i ← natArg t
    let run (g : Runner.WG) (s : Runner.WStep) : Runner.WG := (Runner.wgStep g s).getD g
    let dropNow (g : Runner.WG) : Runner.WG := run (run g (.tokenDec i)) (.tokenWake i)
    let g0 := k.wg
    let g1 := run g0 .pollUpgrade
    if g1.pc != .upgraded then
      let res := if g1.lastPoll == some true then "ready" else "pending"
      some ({ st with k := { k with wg := g1 } }, s!"{res} wakes={k.wgWakes} wb={k.wgWakesB} hook=not-reached")
    else
      let g2 := if point == 1 then dropNow g1 else g1
      let g3 := run g2 .pollRegister
      let g4 := if point == 2 then dropNow g3 else g3
      let g5 := run (run g4 .pollDropTemp) .pollWake
      let w := if g5.wokenSinceRegister then k.wgWakes + 1 else k.wgWakes
      let res := if g5.lastPoll == some true then "ready" else "pending"
      some ({ st with k := { k with wg := g5, wgWakes := w, wgReg := 0 } }, s!"{res} wakes={w} wb={k.wgWakesB} hook=fired")
  | ["g.drop", t] | ["g.dropu", t] => do
    let i ← natArg t
    match Runner.wgStep k.wg (.tokenDec i) with
    | none => some (st, "no-token")
    | some g =>
      let before := g.wokenSinceRegister
      let g := (Runner.wgStep g (.tokenWake i)).getD g
      let woke := g.wokenSinceRegister && !before
      let w := if woke then k.wgWakes + 1 else k.wgWakes
      let wb := if woke && k.wgReg == 1 then k.wgWakesB + 1 else k.wgWakesB
      some ({ st with k := { k with wg := g, wgWakes := w, wgWakesB := wb } }, s!"ok wakes={w} wb={wb}")
  | _ => none

def step (st : DState) (line : String) : DState × String :=
  if line.startsWith "# case" then ({ cur := .none, a := {}, k := {} }, line) else
  if line.startsWith "#" then (st, line) else
  let args := (line.splitOn " ").filter (· ≠ "")
  match stepParser st args with
  | some r => r
  | none =>
  match stepAsync st args with
  | some r => r
  | none =>
  match stepRun args with
  | some o => (st, o)
  | none =>
  match stepRunner st args with
  | some r => r
  | none =>
  match stepVarInt args with
  | some o => (st, o)
  | none =>
  match stepNV args with
  | some o => (st, o)
  | none =>
  match stepProto args with
  | some o => (st, o)
  | none =>
  match stepName args with
  | some o => (st, o)
  | none =>
  match stepResp args with
  | some o => (st, o)
  | none => (st, "bad-op")

partial def loop (h : IO.FS.Stream) (out : IO.FS.Stream) (st : DState) : IO Unit := do
  let line ← h.getLine
  if line.isEmpty then return ()
  let l := (line.dropEndWhile (fun c => c == '\n' || c == '\r')).toString
  let (st', o) := step st l
  out.putStrLn o
  loop h out st'

def main : IO Unit := do
  let stdin ← IO.getStdin
  let stdout ← IO.getStdout
  loop stdin stdout {}
