#!/usr/bin/env python3
"""Regenerates MANIFEST.json from obligations.json + manifest_meta.json (hand-written texts)."""
import json, os
ROOT = os.path.dirname(os.path.dirname(os.path.abspath(__file__)))
idx = json.load(open(os.path.join(ROOT, "obligations.json")))
meta = json.load(open(os.path.join(ROOT, "manifest_meta.json")))
props = [json.loads(l) for l in open(os.path.join(ROOT, "properties.jsonl"))]
checks = []
na = []
for p in props:
    pid = p["id"]
    if pid in idx and pid in meta["checks"]:
        m = meta["checks"][pid]
        checks.append({
            "property_id": pid,
            "quick_cmd": f"./check {pid} --tier quick",
            "thorough_cmd": f"./check {pid} --tier thorough",
            "evidence_file": f"/verif/evidence/{pid}.json",
            "replay_cmd_template": f"./check {pid} --replay {{path}}",
            "engine": "lean-proof+correspondence",
            "level_claimed": {"category": "proof", "text": m["text"], "design_ref": m.get("design_ref", "DESIGN.md §6")},
            "level_note": m["note"],
            "technique": m.get("technique", "Lean 4 theorems over a hand-written model + differential correspondence check against the crate + table translator"),
        })
    else:
        na.append({"property_id": pid, "reason": meta["not_applicable"].get(pid, "check not yet built in this round; see DESIGN.md §13 for the order of work")})
man = {
    "version": 1,
    "setup_cmd": meta["setup_cmd"],
    "hooks": meta["hooks"],
    "engines": meta["engines"],
    "checks": checks,
    "notes": meta["notes"],
    "not_applicable": na,
}
json.dump(man, open(os.path.join(ROOT, "MANIFEST.json"), "w"), indent=1)
print("MANIFEST.json:", len(checks), "checks,", len(na), "not claimed")
