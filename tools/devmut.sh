#!/bin/bash
# dev helper: tools/devmut.sh <seeded-name> <Cxx...>: apply mutant, rebuild harness, run harness+driver (no theorem part), revert
N=$1; shift
git -C /repo apply /verif/seeded/$N/patch.diff || exit 2
(cd /verif/harness && CARGO_NET_OFFLINE=true cargo build --offline --release 2>&1 | grep -E "^error" -A5)
/verif/tools/devrun.sh "$@" 2>&1 | cut -c1-260
git -C /repo checkout -- .
(cd /verif/harness && CARGO_NET_OFFLINE=true cargo build --offline --release 2>&1 | grep -E "^error" -A5)
