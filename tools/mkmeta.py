import json,sys
name,props,breaks,needs,rnd=sys.argv[1:6]
src=f"independent sub-agent, round {rnd} (all 20 property statements; scope restricted to a mechanism class; told all earlier mutants)"
conf="tools/confirm_mutant.sh: suites 68/68 and 82/82 pass with the change; demo fails with it and passes without"
json.dump({"properties":props.split(','),"breaks":breaks,"needs":needs,"source":src,"confirmed":conf},open(f"/verif/seeded/{name}/meta.json","w"),indent=1)
