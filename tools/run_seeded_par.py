#!/usr/bin/env python3
"""tools/run_seeded_par.py <workers> [name ...] — development-time: like run_seeded.py, but on scratch copies so that several
mutants run at once and /repo itself is never touched.  Each worker gets /tmp/sr<k>/{repo,verif}: a local clone of /repo's HEAD and
a copy of /verif whose harness and check point at that clone (same two edits as tools/mutation_campaign.py's scratch root).
Results go to /verif/seeded/<name>/result.json.  The scratch roots are removed at the end."""
import json, os, subprocess, sys, time, threading, queue, shutil
ROOT = os.path.dirname(os.path.dirname(os.path.abspath(__file__)))
SEED = os.path.join(ROOT, "seeded")
N = int(sys.argv[1])
names = sys.argv[2:] or sorted(d for d in os.listdir(SEED) if os.path.isdir(os.path.join(SEED, d)))
def sh(cmd, **kw): return subprocess.run(cmd, shell=True, text=True, capture_output=True, **kw)

def setup(k):
    root = f"/tmp/sr{k}"
    shutil.rmtree(root, ignore_errors=True); os.makedirs(root)
    assert sh(f"git clone -q /repo {root}/repo").returncode == 0
    # the COMMITTED /verif (so that uncommitted work in progress, e.g. a proof agent's half-edited Lean files, cannot leak in), plus
    # the ignored build outputs as a cache
    os.makedirs(f"{root}/verif")
    assert sh(f"git -C /verif archive HEAD | tar -x -C {root}/verif").returncode == 0
    sh(f"rsync -a /verif/lean/.lake {root}/verif/lean/ 2>/dev/null; rsync -a /verif/harness/target {root}/verif/harness/ 2>/dev/null")
    os.makedirs(f"{root}/verif/.run", exist_ok=True)
    sh(f"sed -i 's#path = \"/repo\"#path = \"{root}/repo\"#' {root}/verif/harness/Cargo.toml")
    sh(f"sed -i 's#lock_src = \"/repo/Cargo.lock\"#lock_src = \"{root}/repo/Cargo.lock\"#' {root}/verif/check")
    return root

q = queue.Queue()
for n in names: q.put(n)
plock = threading.Lock()
missed = []
def worker(k):
    root = setup(k)
    env = dict(os.environ, VERIF_REPO=f"{root}/repo", CARGO_NET_OFFLINE="true")
    while True:
        try: n = q.get_nowait()
        except queue.Empty: break
        d = os.path.join(SEED, n)
        meta = json.load(open(os.path.join(d, "meta.json"))) if os.path.exists(os.path.join(d, "meta.json")) else {}
        props = meta.get("properties") or [n.split("-")[0]]
        r = sh(f"git -C {root}/repo apply {d}/patch.diff")
        if r.returncode != 0:
            with plock: print(n, "PATCH DOES NOT APPLY", r.stderr[:200], flush=True)
            continue
        res = {}
        try:
            for p in props + meta.get("also_run", []):
                t0 = time.time()
                c = sh(f"./check {p} --tier quick", cwd=f"{root}/verif", env=env)
                lines = [l for l in c.stdout.splitlines() if l.startswith("VIOLATION") or l.startswith("KNOWN-FINDING")]
                res[p] = {"exit": c.returncode, "lines": lines[:3], "summary": c.stdout.strip().splitlines()[-1] if c.stdout.strip() else "", "s": round(time.time() - t0, 1)}
                with plock: print(f"{n:40s} {p}: exit={c.returncode} {res[p]['summary'][:150]}", flush=True)
        finally:
            sh(f"git -C {root}/repo checkout -- .")
        json.dump({"mutant": n, "properties": props, "caught_by": [p for p, v in res.items() if v["exit"] == 1], "detail": res}, open(os.path.join(d, "result.json"), "w"), indent=1)
        if not [p for p in props if res.get(p, {}).get("exit") == 1]:
            with plock: print(f"  !! {n} NOT caught by its own property check(s) {props}", flush=True); missed.append(n)
    shutil.rmtree(root, ignore_errors=True)
ts = [threading.Thread(target=worker, args=(k,)) for k in range(N)]
for t in ts: t.start()
for t in ts: t.join()
print("missed:", missed)
