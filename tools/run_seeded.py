#!/usr/bin/env python3
"""tools/run_seeded.py [name ...] — development-time: apply each kept mutant (seeded/<name>/patch.diff) to /repo, run the
checks of the properties it breaks (meta.json "properties"; default: the id prefix of the directory name), record the result
in seeded/<name>/result.json, and undo the change straight afterwards.  Never commits anything in /repo."""
import json, os, subprocess, sys, time
ROOT = os.path.dirname(os.path.dirname(os.path.abspath(__file__)))
SEED = os.path.join(ROOT, "seeded")
names = sys.argv[1:] or sorted(d for d in os.listdir(SEED) if os.path.isdir(os.path.join(SEED, d)))
def sh(cmd, **kw): return subprocess.run(cmd, shell=True, text=True, capture_output=True, **kw)
if sh("git -C /repo status --porcelain").stdout.strip():
    print("refusing: /repo has uncommitted changes"); sys.exit(2)
for n in names:
    d = os.path.join(SEED, n)
    meta = {}
    mp = os.path.join(d, "meta.json")
    if os.path.exists(mp): meta = json.load(open(mp))
    props = meta.get("properties") or [n.split("-")[0]]
    extra = meta.get("also_run", [])
    r = sh(f"git -C /repo apply {d}/patch.diff")
    if r.returncode != 0:
        print(n, "PATCH DOES NOT APPLY", r.stderr[:200]); continue
    res = {}
    try:
        for p in props + extra:
            t0 = time.time()
            c = sh(f"./check {p} --tier quick", cwd=ROOT)
            lines = [l for l in c.stdout.splitlines() if l.startswith("VIOLATION") or l.startswith("KNOWN-FINDING")]
            res[p] = {"exit": c.returncode, "lines": lines[:3], "summary": c.stdout.strip().splitlines()[-1] if c.stdout.strip() else "", "s": round(time.time() - t0, 1)}
            print(f"{n:40s} {p}: exit={c.returncode} {res[p]['summary'][:150]}")
    finally:
        sh("git -C /repo checkout -- .")
    caught = [p for p in props if res.get(p, {}).get("exit") == 1]
    json.dump({"mutant": n, "properties": props, "caught_by": [p for p, v in res.items() if v["exit"] == 1], "detail": res}, open(os.path.join(d, "result.json"), "w"), indent=1)
    if not caught: print(f"  !! {n} NOT caught by its own property check(s) {props}")
print("repo clean:", not sh("git -C /repo status --porcelain").stdout.strip())
