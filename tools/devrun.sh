#!/bin/bash
# dev helper: run harness + driver for properties, print summary (not a registered check)
cd /verif/harness
for p in "$@"; do mkdir -p /tmp/r/$p; /usr/bin/time -f "$p %es" ./target/release/fcgi-harness $p ${TIER:-quick} ${SEED:-1} /tmp/r/$p || continue; ../lean/.lake/build/bin/driver < /tmp/r/$p/ops.txt > /tmp/r/$p/model.txt; echo "$p ops=$(wc -l < /tmp/r/$p/ops.txt) diff=$(diff /tmp/r/$p/impl.txt /tmp/r/$p/model.txt | grep -c '^<')"; python3 -c "
import json;o=json.load(open('/tmp/r/$p/oracle.json'));print(' evals',o['evaluations'],'distinct',o['distinct_nontrivial'],'fail',len(o['failures']));[print('  F',f['signature'],f['what'][:300]) for f in o['failures'][:6]]"; done
