#!/usr/bin/env python3
"""tools/index_theorems.py Cxx [PropsFile ...] — (re)writes the theorem list of a property in obligations.json from the
`theorem` declarations of lean/Fcgi/Props/<file>.lean (default file: Cxx). Development-time helper; the committed list is
what ./check audits, so a theorem deleted or renamed later is a broken obligation."""
import json, re, sys, os
ROOT = os.path.dirname(os.path.dirname(os.path.abspath(__file__)))
prop = sys.argv[1]
files = sys.argv[2:] or [prop]
idx = json.load(open(os.path.join(ROOT, "obligations.json")))
names, opens = [], []
for fn in files:
    src = open(os.path.join(ROOT, "lean", "Fcgi", "Props", fn + ".lean")).read()
    # track namespaces (simple: top-level `namespace X` ... `end X`)
    ns_stack = []
    for line in src.split("\n"):
        m = re.match(r"^namespace\s+(\S+)", line)
        if m: ns_stack.append(m.group(1)); continue
        m = re.match(r"^end\s+(\S+)", line)
        if m and ns_stack and ns_stack[-1].endswith(m.group(1).split(".")[-1]): ns_stack.pop(); continue
        m = re.match(r"^(?:protected\s+)?theorem\s+([A-Za-z_0-9.'!?]+)", line)
        if m: names.append(".".join(ns_stack + [m.group(1)]))
        m = re.match(r"^def\s+([A-Za-z_0-9.']+_full)\b", line)
        if m: opens.append(".".join(ns_stack + [m.group(1)]))
e = idx.setdefault(prop, {"modules": [], "theorems": [], "modelled": "", "assumptions": [], "open": []})
e["modules"] = ["Fcgi.Props." + f for f in files]
e["theorems"] = names
short = [n.split(".")[-1] for n in names]
# a `_full` statement is open unless it was proved (`<name>_holds`) or refuted as over-strong (`<name>_false`, with its `_partial`)
opens = [o for o in opens if (o.split(".")[-1] + "_holds") not in short and (o.split(".")[-1] + "_false") not in short]
e["open"] = opens
json.dump(idx, open(os.path.join(ROOT, "obligations.json"), "w"), indent=1)
print(prop, len(names), "theorems;", len(opens), "open statements", opens)
