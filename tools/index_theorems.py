#!/usr/bin/env python3
"""tools/index_theorems.py Cxx [module ...] — (re)writes the theorem list of a property in obligations.json
from the `theorem` declarations of lean/Fcgi/Props/Cxx.lean (development-time helper; the committed list is
what ./check audits, so a theorem deleted or renamed later is a broken obligation)."""
import json, re, sys, os
ROOT = os.path.dirname(os.path.dirname(os.path.abspath(__file__)))
prop = sys.argv[1]
idx = json.load(open(os.path.join(ROOT, "obligations.json")))
src = open(os.path.join(ROOT, "lean", "Fcgi", "Props", prop + ".lean")).read()
ns = re.search(r"^namespace\s+(\S+)", src, re.M).group(1)
names = [ns + "." + m for m in re.findall(r"^(?:protected\s+)?theorem\s+([A-Za-z_0-9.'!?]+)", src, re.M)]
e = idx.setdefault(prop, {"modules": ["Fcgi.Props." + prop], "theorems": [], "modelled": "", "assumptions": [], "open": []})
e["theorems"] = names
e["open"] = [ns + "." + m for m in re.findall(r"^def\s+([A-Za-z_0-9.']+_full)\b", src, re.M)]
json.dump(idx, open(os.path.join(ROOT, "obligations.json"), "w"), indent=1)
print(prop, len(names), "theorems;", len(e["open"]), "open statements")
