#!/usr/bin/env python3
"""Development-time helper (not a registered check): systematic operator mutation of the crate, run against a SCRATCH copy.

  tools/mutation_campaign.py <scratch-root> [--files f1,f2] [--max N] [--seed S]

<scratch-root> must contain `repo/` (a copy of /repo without target/) and `verif/` (a copy of /verif whose check and
harness/Cargo.toml point at <scratch-root>/repo).  For every mutant (one small token-level edit in src/**, outside
#[cfg(test)] modules, comments, tracing/debug_assert lines):
  1. build (both feature sets) — does not compile: skipped;
  2. the crate's own suites (68- and 82-test commands) — a failing test: `killed-by-tests` (such a change could not be a hidden
     one, they must pass the suite);
  3. the quick checks of the properties anchored in the mutated file — any VIOLATION: `caught`; none: `SURVIVED`.
Survivors are equivalent mutants or gaps; they are appended to <scratch-root>/survivors.txt with the diff for inspection.
Results: <scratch-root>/campaign.jsonl (one line per mutant).
"""
import json, os, random, re, subprocess, sys, time

root = sys.argv[1]
args = sys.argv[2:]
def opt(name, default=None):
    if name in args:
        return args[args.index(name) + 1]
    return default
REPO = os.path.join(root, "repo")
VERIF = os.path.join(root, "verif")
ENV = dict(os.environ, CARGO_NET_OFFLINE="true", VERIF_REPO=REPO)
rnd = random.Random(int(opt("--seed", "1")))
MAXN = int(opt("--max", "100000"))

FILE_PROPS = {
    "src/protocol/varint.rs": ["C15", "C16"],
    "src/protocol/nv.rs": ["C16", "C01", "C04"],
    "src/protocol/mod.rs": ["C17", "C10", "C04"],
    "src/protocol/body.rs": ["C17", "C07", "C11"],
    "src/protocol/fields.rs": ["C17", "C18", "C02", "C04"],
    "src/protocol/vars.rs": ["C17", "C04"],
    "src/lib.rs": ["C06", "C17", "C11", "C01"],
    "src/ext.rs": ["C17", "C04", "C01"],
    "src/cgi/mod.rs": ["C19", "C01"],
    "src/cgi/intern.rs": ["C19"],
    "src/cgi/response.rs": ["C20"],
    "src/parser/mod.rs": ["C01", "C04", "C12", "C11"],
    "src/parser/request.rs": ["C01", "C03", "C04", "C06", "C05", "C11"],
    "src/parser/stream.rs": ["C02", "C03", "C04", "C05", "C18", "C09"],
    "src/async_io/mod.rs": ["C07", "C08", "C09", "C10", "C11", "C12", "C13", "C14"],
    "src/async_io/util.rs": ["C10", "C13", "C14", "C12"],
}
files = opt("--files")
files = files.split(",") if files else list(FILE_PROPS)

OPS = [
    (r" <= ", " < "), (r" >= ", " > "), (r" < ", " <= "), (r" > ", " >= "), (r" < ", " > "), (r" > ", " < "),
    (r"==", "!="), (r"!=", "=="), (r"&&", "||"), (r"\|\|", "&&"),
    (r" \+ ", " - "), (r" - ", " + "), (r"\+= ", "-= "), (r"-= ", "+= "),
    (r"\btrue\b", "false"), (r"\bfalse\b", "true"),
    (r"\.min\(", ".max("), (r"\.max\(", ".min("),
    (r"\b0\b", "1"), (r"\b1\b", "0"), (r"\b1\b", "2"), (r"\b7\b", "8"), (r"\b8\b", "7"), (r"\b8\b", "9"),
    (r"if !", "if "), (r"\.is_empty\(\)", ".len() == 1"), (r"\.is_some\(\)", ".is_none()"), (r"\.is_none\(\)", ".is_some()"),
    (r"\bu16::MAX\b", "(u16::MAX - 1)"), (r"0x7f\b", "0x7e"), (r"0x80\b", "0x81"), (r"\.saturating_sub\(", ".wrapping_sub("),
    (r"checked_add", "checked_sub"), (r"\.take\(\)", ".clone()"), (r"Ordering::Less", "Ordering::Greater"), (r"Ordering::Greater", "Ordering::Less"),
    (r"\.\.=", ".."),
    (r"\bu8\b", "u16"), (r" as u8\b", " as u16 as u8"), (r"\.len\(\)", ".len().saturating_sub(1)"), (r"\[0\]", "[1]"), (r" \* ", " + "), (r" / ", " * "), (r" % ", " / "), (r" \| ", " & "), (r" & ", " | "), (r" << ", " >> "), (r" >> ", " << "),
]
SKIP_LINE = re.compile(r"^\s*(//|#\[|///|\*|use |pub use |mod |pub mod )|tracing::|debug_assert|trace!\(|unreachable!|unimplemented!|expect\(\"|panic!|assert!\(|fmt::|#!\[")

def eligible_lines(path):
    src = open(path).read().split("\n")
    out = []
    in_tests = False
    for i, l in enumerate(src):
        if re.match(r"^\s*#\[cfg\(test\)\]", l):
            in_tests = True   # the test module runs to the end of the file in this crate
        if in_tests:
            continue
        if SKIP_LINE.search(l):
            continue
        out.append(i)
    return src, out

def run(cmd, cwd, timeout=1800):
    """own process group, killed as a whole on timeout (a mutant can make a test or the harness spin)"""
    import signal
    p = subprocess.Popen(cmd, cwd=cwd, env=ENV, shell=True, stdout=subprocess.PIPE, stderr=subprocess.STDOUT, text=True, start_new_session=True)
    try:
        out, _ = p.communicate(timeout=timeout)
        return p.returncode, out
    except subprocess.TimeoutExpired:
        try: os.killpg(p.pid, signal.SIGKILL)
        except ProcessLookupError: pass
        p.wait()
        return 124, "timeout"

mutants = []
for f in files:
    path = os.path.join(REPO, f)
    src, lines = eligible_lines(path)
    for i in lines:
        for pat, rep in OPS:
            for m in re.finditer(pat, src[i]):
                # never touch string literals / doc text: crude check — an odd number of quotes before the match
                if src[i][:m.start()].count('"') % 2 == 1:
                    continue
                new = src[i][:m.start()] + rep + src[i][m.end():]
                if new != src[i]:
                    mutants.append((f, i, src[i], new))
# statement-level operators (`--stmt`): delete a simple statement line; swap two adjacent simple statement lines
if "--stmt" in args:
    mutants = []
    for f in files:
        path = os.path.join(REPO, f)
        src, lines = eligible_lines(path)
        simple = lambda l: l.strip().endswith(";") and not l.strip().startswith(("let ", "use ", "pub ", "const ", "static ", "type ", "}", "return", "break", "continue")) and "=>" not in l
        for i in lines:
            if simple(src[i]):
                mutants.append((f, i, src[i], "// " + src[i].strip()))
                if i + 1 in lines and simple(src[i + 1]) and src[i].strip() != src[i + 1].strip():
                    mutants.append((f, i, src[i], src[i + 1] + "\n" + src[i] + "  //SWAP"))
rnd.shuffle(mutants)
if opt("--shard"):
    k, n = map(int, opt("--shard").split("/")); mutants = mutants[k::n]
mutants = mutants[:MAXN]
print(f"{len(mutants)} mutants over {len(files)} files", flush=True)
log = open(os.path.join(root, "campaign.jsonl"), "a")
surv = open(os.path.join(root, "survivors.txt"), "a")
stats = {}
for n, (f, i, old, new) in enumerate(mutants):
    path = os.path.join(REPO, f)
    orig = open(path).read()
    lines = orig.split("\n")
    lines[i] = new
    if new.endswith("//SWAP"): lines[i + 1] = ""
    open(path, "w").write("\n".join(lines))
    t0 = time.time()
    verdict, detail = None, ""
    try:
        rc, out = run("cargo build --offline --features async,http 2>&1 | tail -3 && cargo build --offline 2>&1 | tail -3", REPO)
        if "error" in out or "could not compile" in out:
            verdict = "no-compile"
        else:
            rc1, o1 = run("cargo test --workspace --no-fail-fast --offline 2>&1 | grep -E 'test result|FAILED|panicked' | head -5", REPO, timeout=240)
            rc2, o2 = run("cargo test --offline --features async,http 2>&1 | grep -E 'test result|FAILED|panicked' | head -5", REPO, timeout=240) if rc1 != 124 else (124, "timeout")
            if "FAILED" in o1 or "FAILED" in o2 or "failed" in (o1 + o2).replace("0 failed", "") or "test result" not in o1 or "test result" not in o2:
                verdict = "killed-by-tests"
            else:
                caught = []
                for p in FILE_PROPS[f]:
                    rc, out = run(f"./check {p} 2>&1 | tail -2", VERIF, timeout=1500)
                    if "VIOLATION" in out or "VIOLATED" in out or rc == 124:
                        caught.append(p)
                        break
                verdict = "caught:" + ",".join(caught) if caught else "SURVIVED"
    finally:
        open(path, "w").write(orig)
    rec = {"n": n, "file": f, "line": i + 1, "old": old.strip(), "new": new.strip(), "verdict": verdict, "s": round(time.time() - t0, 1)}
    log.write(json.dumps(rec) + "\n"); log.flush()
    stats[verdict.split(":")[0]] = stats.get(verdict.split(":")[0], 0) + 1
    if verdict == "SURVIVED":
        surv.write(f"{f}:{i+1}\n-  {old.strip()}\n+  {new.strip()}\n\n"); surv.flush()
    print(n, f, i + 1, verdict, rec["s"], stats, flush=True)
