#!/usr/bin/env python3
"""Translator: /repo/src/** -> lean/Fcgi/Gen/Tables.lean

Extracts every *table or constant* the Lean model depends on from the Rust source text
and emits it as Lean definitions.  The model imports the generated file, so theorems about
discriminants, constants, role/stream tables and the interned-name table are re-checked
against what the code says now.  An item that cannot be found or parsed is a hard error
(exit 2, message names the item): it is reported by ./check as a broken obligation.

Output is deterministic; the file is only rewritten when its content changes (so lake's
cache stays valid on an unchanged tree).
"""
import re
import sys
import os

REPO = os.environ.get("VERIF_REPO", "/repo")
OUT = os.path.join(os.path.dirname(os.path.abspath(__file__)), "..", "lean", "Fcgi", "Gen", "Tables.lean")


class Missing(Exception):
    pass


def src(rel):
    p = os.path.join(REPO, "src", rel)
    try:
        with open(p, encoding="utf-8") as f:
            return f.read()
    except OSError as e:
        raise Missing(f"file {rel}: {e}")


def strip_comments(s):
    # remove // comments (incl. doc comments) but keep string literals intact enough for our regexes
    out = []
    for line in s.split("\n"):
        # naive: cut at // when not inside a string literal
        i = 0
        instr = False
        cut = None
        while i < len(line):
            c = line[i]
            if instr:
                if c == "\\":
                    i += 2
                    continue
                if c == '"':
                    instr = False
            else:
                if c == '"':
                    instr = True
                elif c == "/" and i + 1 < len(line) and line[i + 1] == "/":
                    cut = i
                    break
            i += 1
        out.append(line if cut is None else line[:cut])
    return "\n".join(out)


def need(m, what):
    if not m:
        raise Missing(what)
    return m


def enum_discriminants(text, name, what):
    m = need(re.search(r"pub enum %s\s*\{(.*?)\n\}" % re.escape(name), text, re.S), what)
    body = strip_comments(m.group(1))
    items = re.findall(r"\b([A-Z][A-Za-z0-9_]*)\s*(?:\([^)]*\))?\s*=\s*(\d+)\s*,", body)
    if not items:
        raise Missing(what + " (no variants)")
    # every variant must have an explicit discriminant
    allv = re.findall(r"^\s*([A-Z][A-Za-z0-9_]*)\b", body, re.M)
    if len(allv) != len(items):
        raise Missing(what + f" (variants without explicit discriminant: {allv} vs {items})")
    return [(n, int(v)) for n, v in items]


def eval_const_expr(expr, env):
    e = expr.strip()
    e = re.sub(r"\bas\s+\w+", "", e)
    for k, v in env.items():
        e = re.sub(r"\b%s\b" % re.escape(k), str(v), e)
    if not re.fullmatch(r"[0-9\s+\-*()<>]+", e):
        raise Missing(f"cannot evaluate constant expression {expr!r} -> {e!r}")
    return int(eval(e, {"__builtins__": {}}))


def rust_bytes_literal(lit):
    """decode the inside of a b"..." literal into a list of ints"""
    out = []
    i = 0
    while i < len(lit):
        c = lit[i]
        if c == "\\":
            n = lit[i + 1]
            if n == "n":
                out.append(10); i += 2
            elif n == "r":
                out.append(13); i += 2
            elif n == "t":
                out.append(9); i += 2
            elif n == "0":
                out.append(0); i += 2
            elif n == "\\":
                out.append(92); i += 2
            elif n == '"':
                out.append(34); i += 2
            elif n == "x":
                out.append(int(lit[i + 2:i + 4], 16)); i += 4
            else:
                raise Missing(f"unknown escape in literal {lit!r}")
        else:
            out.append(ord(c)); i += 1
    return out


def lean_bytes(bs):
    return "[" + ", ".join(str(b) for b in bs) + "]"


def screaming_snake(ident):
    """strum's serialize_all = SCREAMING_SNAKE_CASE uses heck::ToShoutySnakeCase.
    For identifiers that are already upper-case with underscores and digits heck yields
    the identifier with word boundaries kept; a digit does not start a new word.
    We implement heck's rule for the general case: split on '_' and on lower->upper
    boundaries / acronym boundaries, join with '_', uppercase."""
    words = []
    for part in ident.split("_"):
        if not part:
            continue
        cur = ""
        chars = list(part)
        for i, ch in enumerate(chars):
            nxt = chars[i + 1] if i + 1 < len(chars) else None
            cur += ch
            if nxt is None:
                break
            # boundary lower->upper
            if (ch.islower() or ch.isdigit()) and nxt.isupper() and ch.islower():
                words.append(cur); cur = ""
            # acronym boundary: upper, upper followed by lower  (e.g. "HTTPServer" -> HTTP | Server)
            elif ch.isupper() and nxt.isupper() and i + 2 < len(chars) and chars[i + 2].islower():
                words.append(cur); cur = ""
        if cur:
            words.append(cur)
    return "_".join(w.upper() for w in words)


def main():
    missing = []
    fields = src("protocol/fields.rs")
    pmod = src("protocol/mod.rs")
    body = src("protocol/body.rs")
    vars_ = src("protocol/vars.rs")
    varint = src("protocol/varint.rs")
    lib = src("lib.rs")
    cgimod = src("cgi/mod.rs")
    intern = src("cgi/intern.rs")
    resp = src("cgi/response.rs")

    L = []
    A = L.append
    A("-- GENERATED by tools/gen_tables.py from /repo/src — do not edit.")
    A("-- Regenerated on every ./check run; theorems over these tables are re-checked against the source.")
    A("namespace Fcgi.Gen")
    A("")

    try:
        # ---- enums -------------------------------------------------------------------
        for en in ["Version", "Role", "ProtocolStatus", "RecordType"]:
            items = enum_discriminants(fields, en, f"enum {en} in protocol/fields.rs")
            A(f"/-- `{en}` variants with their explicit discriminants, in declaration order. -/")
            A(f"def {en[0].lower() + en[1:]}Table : List (String × Nat) := [" +
              ", ".join(f'("{n}", {v})' for n, v in items) + "]")
            for n, v in items:
                A(f"def {en[0].lower() + en[1:]}_{n} : Nat := {v}")
            A("")
        rt = dict(enum_discriminants(fields, "RecordType", "RecordType"))

        # ExitStatus discriminants (lib.rs)
        es = enum_discriminants(lib, "ExitStatus", "enum ExitStatus in lib.rs")
        A("def exitStatusTable : List (String × Nat) := [" + ", ".join(f'("{n}", {v})' for n, v in es) + "]")
        A("")

    except Missing as e:
        missing.append(str(e))
    try:
        # ---- classification predicates (matches! lists) -------------------------------
        for fn in ["is_management", "is_input_stream", "is_output_stream"]:
            m = need(re.search(r"pub fn %s\(self\) -> bool \{\s*matches!\(self,\s*([^)]*)\)" % fn, fields),
                     f"RecordType::{fn} matches! list")
            names = [x.strip().replace("Self::", "") for x in m.group(1).split("|")]
            for n in names:
                if n not in rt:
                    raise Missing(f"{fn}: unknown variant {n}")
            camel = "".join(w.capitalize() if i else w for i, w in enumerate(fn.split("_")))
            A(f"def {camel}List : List Nat := [" + ", ".join(str(rt[n]) for n in names) + "]")
        A("")

    except Missing as e:
        missing.append(str(e))
    try:
        # ---- Role stream tables -------------------------------------------------------
        m = need(re.search(r"pub fn input_streams\(self\).*?match self \{(.*?)\n        \}", fields, re.S),
                 "Role::input_streams match")
        roles = dict(enum_discriminants(fields, "Role", "Role"))
        rows = re.findall(r"Self::(\w+)\s*=>\s*&\[([^\]]*)\]", m.group(1))
        if {r for r, _ in rows} != set(roles):
            raise Missing(f"Role::input_streams does not cover all roles: {rows}")
        A("/-- `Role::input_streams`: (role discriminant, stream type discriminants in order). -/")
        A("def inputStreamsTable : List (Nat × List Nat) := [" + ", ".join(
            f"({roles[r]}, [" + ", ".join(str(rt[s.strip()]) for s in lst.split(",") if s.strip()) + "])"
            for r, lst in rows) + "]")
        m = need(re.search(r"pub fn output_streams\(self\).*?&\[([^\]]*)\]\s*\n\s*\}", fields, re.S),
                 "Role::output_streams")
        A("def outputStreams : List Nat := [" + ", ".join(str(rt[s.strip()]) for s in m.group(1).split(",") if s.strip()) + "]")
        m = need(re.search(r"pub fn next_input_stream\(self, current: Option<RecordType>\).*?match \(self, current\) \{(.*?)\n        \}",
                           fields, re.S), "Role::next_input_stream match")
        arms = strip_comments(m.group(1))
        nxt = []
        for am in re.finditer(r"\(([^,]+),\s*([^)]+(?:\([^)]*\))?)\)\s*=>\s*(Some\((\w+)\)|None)\s*,", arms):
            rs = [x.strip().replace("Self::", "") for x in am.group(1).split("|")]
            cur = am.group(2).strip()
            curv = "none" if cur == "None" else "some " + str(rt[need(re.fullmatch(r"Some\((\w+)\)", cur), "next_input_stream arm " + cur).group(1)])
            res = "none" if am.group(3) == "None" else "some " + str(rt[am.group(4)])
            for r in rs:
                nxt.append((roles[r], curv, res))
        if not re.search(r"_\s*=>\s*None", arms):
            raise Missing("next_input_stream default arm `_ => None`")
        if not nxt:
            raise Missing("next_input_stream arms")
        A("/-- `Role::next_input_stream` explicit arms (role, current, result); everything else is `none`. -/")
        A("def nextInputStreamArms : List (Nat × Option Nat × Option Nat) := [" +
          ", ".join(f"({r}, {c}, {x})" for r, c, x in nxt) + "]")
        A("")

    except Missing as e:
        missing.append(str(e))
    try:
        # ---- flags ------------------------------------------------------------------
        m = need(re.search(r"pub struct RequestFlags: u8 \{(.*?)\n    \}", fields, re.S), "RequestFlags bitflags")
        fl = re.findall(r"const (\w+)\s*=\s*(0x[0-9a-fA-F]+|\d+);", strip_comments(m.group(1)))
        if not fl:
            raise Missing("RequestFlags constants")
        A("def requestFlagsTable : List (String × Nat) := [" + ", ".join(f'("{n}", {int(v, 0)})' for n, v in fl) + "]")
        kc = dict((n, int(v, 0)) for n, v in fl).get("KeepConn")
        if kc is None:
            raise Missing("RequestFlags::KeepConn")
        A(f"def keepConn : Nat := {kc}")
        m = need(re.search(r"pub struct ProtocolVariables: u8 \{(.*?)\n    \}", vars_, re.S), "ProtocolVariables bitflags")
        pv = re.findall(r"const (\w+)\s*=\s*(0x[0-9a-fA-F]+|\d+);", strip_comments(m.group(1)))
        if not pv:
            raise Missing("ProtocolVariables constants")
        A("/-- `ProtocolVariables` flags in declaration order (= `iter_names` order): (name bytes, bit). -/")
        A("def protocolVarsTable : List (List UInt8 × Nat) := [" +
          ", ".join(f"({lean_bytes(n.encode())}, {int(v, 0)})" for n, v in pv) + "]")
        # value rule in write_response
        m = need(re.search(r"let value = match var \{(.*?)\n            \};", vars_, re.S), "write_response value match")
        arms = m.group(1)
        m1 = need(re.search(r"((?:Self::\w+\s*\|\s*)*Self::\w+)\s*=>\s*config\.max_conns\.to_compact_string\(\)", arms),
                  "write_response max_conns arm")
        maxc = [x.strip().replace("Self::", "") for x in m1.group(1).split("|")]
        m2 = need(re.search(r"Self::(\w+)\s*=>\s*CompactString::const_new\(\"([^\"]*)\"\)", arms), "write_response const arm")
        pvd = dict((n, int(v, 0)) for n, v in pv)
        A("def varsUsingMaxConns : List Nat := [" + ", ".join(str(pvd[x]) for x in maxc) + "]")
        A(f"def varsConst : List (Nat × List UInt8) := [({pvd[m2.group(1)]}, {lean_bytes(m2.group(2).encode())})]")
        A("")

    except Missing as e:
        missing.append(str(e))
    try:
        # ---- constants ----------------------------------------------------------------
        env = {}
        m = need(re.search(r"impl RecordHeader \{.*?pub const LEN: usize = (\d+);", pmod, re.S), "RecordHeader::LEN")
        env["RecordHeader::LEN"] = int(m.group(1))
        A(f"def recordHeaderLen : Nat := {m.group(1)}")
        for ty in ["UnknownType", "BeginRequest", "EndRequest"]:
            m = need(re.search(r"impl %s \{.*?pub const LEN: usize = (\d+);" % ty, body, re.S), f"{ty}::LEN")
            env[f"{ty}::LEN"] = int(m.group(1))
            A(f"def {ty[0].lower() + ty[1:]}Len : Nat := {m.group(1)}")
        m = need(re.search(r"const EPILOGUE_LEN: usize = ([^;]+);", body), "EPILOGUE_LEN")
        A(f"def epilogueLen : Nat := {eval_const_expr(m.group(1), env)}")
        m = need(re.search(r"pub const RESPONSE_LEN: usize = (\d+);", vars_), "RESPONSE_LEN")
        A(f"def responseLen : Nat := {m.group(1)}")
        m = need(re.search(r"pub const FCGI_NULL_REQUEST_ID: u16 = (\d+);", pmod), "FCGI_NULL_REQUEST_ID")
        A(f"def nullRequestId : Nat := {m.group(1)}")
        m = need(re.search(r"const MIN_BUF_SIZE: usize = (\d+);", lib), "MIN_BUF_SIZE")
        A(f"def minBufSize : Nat := {m.group(1)}")
        m = need(re.search(r"const DEFAULT_BUF_SIZE: usize = (\d+);", lib), "DEFAULT_BUF_SIZE")
        A(f"def defaultBufSize : Nat := {m.group(1)}")
        m = need(re.search(r"Some\(r\) => r & !(\d+),", lib), "aligned_bufsize mask")
        A(f"def alignMask : Nat := {m.group(1)}")
        m = need(re.search(r"self\.buffer_size\.checked_add\((\d+)\)", lib), "aligned_bufsize addend")
        A(f"def alignAdd : Nat := {m.group(1)}")
        m = need(re.search(r"const LONG_BIT: u8 = ([^;]+);", varint), "VarInt::LONG_BIT")
        A(f"def varintLongBit : Nat := {eval_const_expr(m.group(1), {})}")
        m = need(re.search(r"pub const MAX: Self = VarInt\(([^;]+)\);", varint), "VarInt::MAX")
        A(f"def varintMax : Nat := {eval_const_expr(m.group(1), {})}")
        m = need(re.search(r"const LANES: usize = (\d+);", cgimod), "hash LANES")
        A(f"def hashLanes : Nat := {m.group(1)}")
        m = need(re.search(r"arr\[rem\.len\(\)\] = (0x[0-9a-fA-F]+|\d+);", cgimod), "hash terminator byte")
        A(f"def hashTerminator : Nat := {int(m.group(1), 0)}")
        m = need(re.search(r"pub const ABORT: Self = Self::Complete\(u32::from_be_bytes\(\*b\"([^\"]*)\"\)\);", lib), "ExitStatus::ABORT")
        ab = rust_bytes_literal(m.group(1))
        if len(ab) != 4:
            raise Missing("ExitStatus::ABORT literal is not 4 bytes")
        A(f"def exitAbort : Nat := {int.from_bytes(bytes(ab), 'big')}")
        m = need(re.search(r"pub const SUCCESS: Self = Self::Complete\((\d+)\);", lib), "ExitStatus::SUCCESS")
        A(f"def exitSuccess : Nat := {m.group(1)}")
        m = need(re.search(r"buf\.get\(\.\.this\.orig_len", src("async_io/mod.rs")), "StreamWriter buf cap")  # presence only
        m = need(re.search(r"set_lengths\(buf\.len\(\)\.try_into\(\)\.unwrap_or\(u16::MAX\)\)", src("async_io/mod.rs")),
                 "StreamWriter length cap u16::MAX")
        A("def writerCap : Nat := 65535")
        # set_lengths modulus
        m = need(re.search(r"let mut padding = content_length % (\d+);\s*if padding > 0 \{\s*padding = (\d+) - padding;", pmod),
                 "RecordHeader::set_lengths arithmetic")
        if m.group(1) != m.group(2):
            raise Missing("set_lengths uses two different moduli")
        A(f"def padModulus : Nat := {m.group(1)}")
        A("")

    except Missing as e:
        missing.append(str(e))
    try:
        # ---- StaticVarName ---------------------------------------------------------------
        m = need(re.search(r"pub enum StaticVarName \{(.*?)\n\}", intern, re.S), "enum StaticVarName")
        if not re.search(r'#\[strum\(use_phf, serialize_all = "SCREAMING_SNAKE_CASE"\)\]', intern):
            raise Missing("StaticVarName strum serialize_all = SCREAMING_SNAKE_CASE attribute")
        bodyv = strip_comments(m.group(1))
        variants = re.findall(r"^\s*([A-Za-z][A-Za-z0-9_]*)\s*,", bodyv, re.M)
        if len(variants) < 10:
            raise Missing("StaticVarName variants")
        if re.search(r"#\[strum\((?!use_phf)", m.group(1)):
            raise Missing("StaticVarName: per-variant strum attribute not supported by translator")
        A("/-- `StaticVarName` variants in declaration order: the identifier as written in the source. -/")
        A("def staticVarIdents : List (List UInt8) := [")
        A(",\n".join("  " + lean_bytes(v.encode()) for v in variants))
        A("]")
        A("/-- The serialised string of each variant (strum SCREAMING_SNAKE_CASE applied by the translator). -/")
        A("def staticVarNames : List (List UInt8) := [")
        A(",\n".join("  " + lean_bytes(screaming_snake(v).encode()) for v in variants))
        A("]")
        A("")

    except Missing as e:
        missing.append(str(e))
    try:
        # ---- cgi/response.rs literals ------------------------------------------------------
        m = need(re.search(r'const LOCATION: &\[u8\] = b"([^"]*)";', resp), "response LOCATION literal")
        A(f"def respLocation : List UInt8 := {lean_bytes(rust_bytes_literal(m.group(1)))}")
        fn = need(re.search(r"pub fn simple_redirect.*?\n\}", resp, re.S), "simple_redirect body").group(0)
        m = need(re.search(r'w\.write_all\(b"([^"]*)"\)\?;\s*Ok\(LOCATION\.len\(\) \+ (\d+) \+ val\.len\(\)\)', fn),
                 "simple_redirect terminator + count")
        A(f"def respRedirectEnd : List UInt8 := {lean_bytes(rust_bytes_literal(m.group(1)))}")
        A(f"def respRedirectEndCount : Nat := {m.group(2)}")
        fn = need(re.search(r"pub fn write_headers.*?\n\}", resp, re.S), "write_headers body").group(0)
        m = need(re.search(r'let mut sbuf = \*b"([^"]*)";', fn), "write_headers status template")
        A(f"def respStatusTemplate : List UInt8 := {lean_bytes(rust_bytes_literal(m.group(1)))}")
        m = need(re.search(r"sbuf\[(\d+)\.\.(\d+)\]\.copy_from_slice\(status\.as_str\(\)\.as_bytes\(\)\)", fn), "status code slot")
        A(f"def respStatusSlot : Nat × Nat := ({m.group(1)}, {m.group(2)})")
        m = need(re.search(r'canonical_reason\(\)\.map_or\(b"([^"]*)"', fn), "custom reason literal")
        A(f"def respCustomReason : List UInt8 := {lean_bytes(rust_bytes_literal(m.group(1)))}")
        m = need(re.search(r'for \(name, val\) in headers \{.*?w\.write_all\(b"([^"]*)"\)\?;\s*w\.write_all\(name\)\?;\s*'
                           r'w\.write_all\(b"([^"]*)"\)\?;\s*w\.write_all\(val\)\?;\s*written \+= name\.len\(\) \+ val\.len\(\) \+ (\d+);',
                           fn, re.S), "write_headers per-header writes")
        A(f"def respHeaderLead : List UInt8 := {lean_bytes(rust_bytes_literal(m.group(1)))}")
        A(f"def respHeaderSep : List UInt8 := {lean_bytes(rust_bytes_literal(m.group(2)))}")
        A(f"def respHeaderCount : Nat := {m.group(3)}")
        m = need(re.search(r'w\.write_all\(b"([^"]*)"\)\?;\s*Ok\(written \+ (\d+)\)', fn), "write_headers terminator + count")
        A(f"def respHeadersEnd : List UInt8 := {lean_bytes(rust_bytes_literal(m.group(1)))}")
        A(f"def respHeadersEndCount : Nat := {m.group(2)}")
        # header-name mapping literals (cgi/mod.rs)
        m = need(re.search(r'CompactString::const_new\("([^"]*)"\);\s*var\.reserve', cgimod), "HeaderName prefix literal")
        A(f"def headerPrefix : List UInt8 := {lean_bytes(m.group(1).encode())}")
        m = need(re.search(r"head\.split\('(.)'\)", cgimod), "HeaderName split char")
        A(f"def headerSplitChar : Nat := {ord(m.group(1))}")
        m = need(re.search(r"var\.push\('(.)'\);", cgimod), "HeaderName join char")
        A(f"def headerJoinChar : Nat := {ord(m.group(1))}")

    except Missing as e:
        missing.append(str(e))
    A("")
    A("end Fcgi.Gen")
    text = "\n".join(L) + "\n"

    os.makedirs(os.path.dirname(OUT), exist_ok=True)
    old = None
    if os.path.exists(OUT):
        with open(OUT, encoding="utf-8") as f:
            old = f.read()
    if old != text:
        with open(OUT, "w", encoding="utf-8") as f:
            f.write(text)
        print("gen_tables: wrote", os.path.normpath(OUT))
    else:
        print("gen_tables: unchanged")
    for m in missing:
        print(f"gen_tables: TABLE-ITEM-MISSING: {m}")
    return missing


if __name__ == "__main__":
    try:
        miss = main()
    except Missing as e:
        # an item every table depends on (a source file) is gone: nothing can be generated
        print(f"gen_tables: TABLE-ITEM-MISSING: {e}", file=sys.stderr)
        sys.exit(2)
    # items that could not be extracted are simply absent from Tables.lean: exactly the theorems that mention them stop compiling
    sys.exit(0)
