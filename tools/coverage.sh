#!/bin/bash
# Development-time helper (not a registered check): line coverage of /repo/src under all harness families (quick tier).
# Builds an instrumented copy of the harness with the nightly toolchain in a scratch directory, runs every family,
# prints the llvm-cov summary and the source lines never executed (Debug/Display impls filtered out), removes the scratch.
set -e
S=$(mktemp -d /tmp/hcov.XXXXXX); trap 'rm -rf "$S"' EXIT
mkdir -p $S/h; rsync -a --exclude target /verif/harness/ $S/h/
ln -s /verif/lean $S/lean; ln -s /verif/corpus $S/corpus
sed -i 's/"cfg(fastcgi_server_verif)"\]/"cfg(fastcgi_server_verif)", "-C", "instrument-coverage"]/' $S/h/.cargo/config.toml
(cd $S/h && LLVM_PROFILE_FILE=$S/build-%p.profraw CARGO_NET_OFFLINE=true cargo +nightly build --release --offline 2>&1 | tail -1)
B=$(dirname $(find ~/.rustup/toolchains/nightly-x86_64-unknown-linux-gnu -name llvm-cov | head -1))
for p in C01 C02 C03 C04 C05 C06 C07 C08 C09 C10 C11 C12 C13 C14 C15 C16 C17 C18 C19 C20; do
  mkdir -p $S/o/$p; (cd $S/h && LLVM_PROFILE_FILE=$S/o/$p.profraw ./target/release/fcgi-harness $p ${TIER:-quick} 1 $S/o/$p >/dev/null 2>&1) || echo "$p: harness exit $?"
done
$B/llvm-profdata merge -sparse $S/o/C*.profraw -o $S/all.profdata
$B/llvm-cov report $S/h/target/release/fcgi-harness -instr-profile=$S/all.profdata --sources /repo/src | awk 'NR==1 || /^(parser|protocol|cgi|async_io|lib|ext|TOTAL)/ {printf "%-22s lines %6s missed %5s  %s\n", $1, $8, $9, $10}'
echo "--- lines never executed (Debug/Display impls filtered) ---"
$B/llvm-cov show $S/h/target/release/fcgi-harness -instr-profile=$S/all.profdata --sources /repo/src | awk '/^\/repo/ {f=$0} /^ +[0-9]+\| +0\|/ {print f " " $0}' | grep -v "fn fmt\|fmt::\|write!(f\|debug_struct" | cut -c1-160
