#!/usr/bin/env python3
"""Regenerate DESIGN.md §14.8 (theorem inventory) from obligations.json.  Development-time helper."""
import json, re
o = json.load(open('/verif/obligations.json'))
rows = []; total = 0
for k in sorted(o):
    v = o[k]
    if not isinstance(v, dict) or 'theorems' not in v: continue
    mods = ", ".join(m.split('.')[-1] for m in v['modules'])
    op = ", ".join(t.split('.')[-1] for t in v.get('open', [])) or "—"
    rows.append(f"| {k} | {len(v['theorems'])} | {mods} | {op} |"); total += len(v['theorems'])
distinct = len({t for v in o.values() if isinstance(v, dict) for t in v.get('theorems', [])})
body = ("### 14.8 Theorem inventory (generated from `obligations.json` by `tools/gen_inventory.py`)\n"
        "| property | theorems audited | Props modules | open `_full` statements |\n|---|---|---|---|\n" + "\n".join(rows) +
        f"\n\nTotal: {total} audited theorem obligations ({distinct} distinct theorems; a Props module registered under two properties is "
        "audited by both), each re-checked and axiom-audited by the property's check on every run.\n")
s = open('/verif/DESIGN.md').read()
i = s.index("### 14.8 Theorem inventory")
m = re.search(r"\n#+ ", s[i + 10:])
j = i + 10 + m.start() + 1 if m else len(s)
open('/verif/DESIGN.md', 'w').write(s[:i] + body + ("\n" if m else "") + s[j:])
print(total, distinct)
