#!/bin/bash
# all 20 quick checks for a seed, sequentially (they share /repo build + lake lock)
cd /verif
for p in C01 C02 C03 C04 C05 C06 C07 C08 C09 C10 C11 C12 C13 C14 C15 C16 C17 C18 C19 C20; do ./check $p --seed $1 | tail -1; done
