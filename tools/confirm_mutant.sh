#!/bin/bash
# tools/confirm_mutant.sh <Cxx> <name>: confirm a sub-agent's mutant in its scratch worktree /tmp/mut-<Cxx>, then keep it under seeded/<name>/
# (1) existing tests pass with the change (both feature sets) (2) demo fails with the change (3) demo passes without it
set -u
P=$1; NAME=$2; D=${3:-/tmp/mut-$P}
cd $D || exit 2
[ -f MUTANT/patch.diff ] || { echo "no MUTANT/patch.diff"; exit 2; }
DEMO_CMD=$(cat MUTANT/demo_cmd.txt | grep -v '^#' | grep cargo | head -1)
echo "demo cmd: $DEMO_CMD"
export CARGO_NET_OFFLINE=true
# make sure the tree == HEAD + patch (+ demo files)
git checkout -q -- src && git apply MUTANT/patch.diff || { echo "patch does not apply"; exit 2; }
T1=$(cargo test --workspace --no-fail-fast --offline 2>&1 | grep -E "^test result" | head -1)
T2=$(cargo test --offline --features async,http --lib 2>&1 | grep -E "^test result" | head -1)
echo "suite(default) with change: $T1"; echo "suite(async,http) with change: $T2"
# the demo is excluded from the suite runs above only if it lives in tests/ (it is part of --workspace!) -> run suite with demo moved away
if [ -f tests/mutant_demo.rs ]; then mv tests/mutant_demo.rs /tmp/mutant_demo_$P.rs; T1=$(cargo test --workspace --no-fail-fast --offline 2>&1 | grep -E "^test result" | head -1); echo "suite(default, demo removed) with change: $T1"; mv /tmp/mutant_demo_$P.rs tests/mutant_demo.rs; fi
(eval "$DEMO_CMD" 2>&1 | grep -E "^test result|FAILED|panicked" | head -3) > /tmp/demo_with_$P.txt; echo "demo WITH change:"; cat /tmp/demo_with_$P.txt
git checkout -q -- src
(eval "$DEMO_CMD" 2>&1 | grep -E "^test result|FAILED|panicked" | head -3) > /tmp/demo_without_$P.txt; echo "demo WITHOUT change:"; cat /tmp/demo_without_$P.txt
git apply MUTANT/patch.diff
mkdir -p /verif/seeded/$NAME && cp MUTANT/patch.diff /verif/seeded/$NAME/ && cp MUTANT/meta.txt /verif/seeded/$NAME/meta.txt 2>/dev/null; cp MUTANT/demo_cmd.txt /verif/seeded/$NAME/ 2>/dev/null
for f in MUTANT/*.rs tests/mutant_demo.rs; do [ -f "$f" ] && cp "$f" /verif/seeded/$NAME/; done
echo "kept under /verif/seeded/$NAME"
