#!/bin/bash
cd /verif
run() { /usr/bin/time -f "$1 %es" ./check $1 --tier thorough > /tmp/thor-$1.log 2>&1; echo "$1 exit=$? $(tail -1 /tmp/thor-$1.log | cut -c1-200)" >> /tmp/thorough8.log; }
: > /tmp/thorough8.log
for p in "$@"; do run $p & done; wait
echo ALLDONE >> /tmp/thorough8.log
