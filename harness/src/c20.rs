//! C20 — CGI response header writers.
use crate::exec::{run as ex, Impl};
use crate::util::*;

fn pairs_arg(h: &[(Vec<u8>, Vec<u8>)]) -> String { if h.is_empty() { "-".into() } else { h.iter().map(|(n, v)| format!("{}:{}", hexd(n), hexd(v))).collect::<Vec<_>>().join(",") } }

pub fn run(ctx: &mut Ctx) {
    let mut log = Log::new(&ctx.dir);
    let mut im = Impl::new();
    let mut or = Oracle::new("C20",
        "all 900 status codes 100..999 (reason from the real http crate), header lists of 0..8 headers incl. empty names/values and arbitrary non-newline bytes, location strings; \
         for each case every destination capacity 0..total (sampled in the middle for long outputs) on &mut [u8], plus Vec; http_headers through a real http::Response. \
         Every op compared with the Lean model; oracle = grammar re-stated in the harness. Non-trivial: all; distinct by (code, headers, capacity)");
    let mut rng = ctx.rng.fork();
    let gen_bytes = |rng: &mut Rng, maxlen: usize| -> Vec<u8> { let l = rng.usize_below(maxlen + 1); (0..l).map(|_| loop { let b = rng.next() as u8; if b != b'\n' && b != b'\r' { break b; } }).collect() };
    // the documented precondition: `Status` (any case) must not be used as a header name — "verified by a debug assertion"; the harness
    // builds the crate with debug assertions on, so these calls panic, in the crate and in the model's driver alike
    log.case("flat-reserved-name");
    for nm in ["Status", "status", "STATUS", "sTaTuS"] { for pos in 0..3usize {
        let mut hdrs: Vec<(Vec<u8>, Vec<u8>)> = (0..3).map(|i| (format!("x-h{i}").into_bytes(), b"v".to_vec())).collect();
        hdrs[pos].0 = nm.as_bytes().to_vec();
        let op = format!("resp.headers vec 200 {} {}", hex(b"OK"), pairs_arg(&hdrs));
        let o = ex(&mut log, &mut im, &op);
        if o != "panic" { or.fail(format!("write_headers with the reserved header name `{nm}` did not hit its documented debug assertion: `{}`", &o[..o.len().min(80)]), format!("# case flat-oracle\n{op}"), "headers:reserved-name".into()); }
        or.eval(("reserved", nm, pos), true);
    } }
    log.case("flat-headers");
    for code in 100..=999u16 {
        let st = http::StatusCode::from_u16(code).unwrap();
        let reason = st.canonical_reason();
        let rarg = reason.map_or("none".to_string(), |r| hex(r.as_bytes()));
        let nvariants = if reason.is_some() || code % 50 == 0 { ctx.n(2, 6) } else { 1 };
        for k in 0..nvariants {
            let nh = if k == 0 { 0 } else { rng.usize_below(9) };
            let hdrs: Vec<(Vec<u8>, Vec<u8>)> = (0..nh).map(|_| {
                let mut n = gen_bytes(&mut rng, 12);
                if n.eq_ignore_ascii_case(b"status") { n.push(b'x'); }   // the reserved name is excluded by the documented precondition (exercised separately below)
                (n, gen_bytes(&mut rng, 20)) }).collect();
            let mut exp: Vec<u8> = format!("Status: {code} {}", reason.unwrap_or("Custom")).into_bytes();
            for (n, v) in &hdrs { exp.push(b'\n'); exp.extend(n); exp.extend(b": "); exp.extend(v); }
            exp.extend(b"\n\n");
            let total = exp.len();
            let mut caps: Vec<String> = vec!["vec".into(), "drip1".into(), format!("drip{}", 2 + rng.usize_below(9))];   // drip<k>: a writer accepting k bytes per write call
            for c in 0..=total + 1 { if total <= 48 || c < 16 || c + 8 > total || rng.chance(1, 8) { caps.push(c.to_string()); } }
            for cap in caps {
                let op = format!("resp.headers {cap} {code} {rarg} {}", pairs_arg(&hdrs));
                let o = ex(&mut log, &mut im, &op);
                let fits = cap == "vec" || cap.starts_with("drip") || cap.parse::<usize>().unwrap() >= total;
                let good = if fits { o == format!("ok {total} out={}", hexd(&exp)) } else {
                    o.starts_with("err out=") && { let out = unhex(&o[8..]); exp.starts_with(&out) } };
                if !good { or.fail(format!("write_headers({code}, {nh} headers) into capacity {cap} (needs {total}): `{}`", &o[..o.len().min(120)]), format!("# case flat-oracle\n{op}"), format!("headers:{code}:{cap}:{total}")); }
                or.eval((code, &hdrs, &cap), true);
            }
            if code == 404 && k == 1 { or.sample(format!("resp.headers vec 404 {rarg} {} -> {}", pairs_arg(&hdrs), String::from_utf8_lossy(&exp).escape_default())); }
        }
    }
    or.exhaustive.push("all 900 status codes 100..999".into());
    log.case("flat-http");
    for _ in 0..ctx.n(150, 3000) {
        let code = rng.range(100, 999) as u16;
        let st = http::StatusCode::from_u16(code).unwrap();
        let rarg = st.canonical_reason().map_or("none".to_string(), |r| hex(r.as_bytes()));
        let nh = rng.usize_below(6);
        let mut names: Vec<String> = vec![];
        while names.len() < nh { let l = 1 + rng.usize_below(10); let n: String = (0..l).map(|_| (b'a' + rng.below(26) as u8) as char).collect(); if !names.contains(&n) && n != "status" { names.push(n); }
            // a header name may carry several values (Set-Cookie …): every value is its own line
            if !names.is_empty() && names.len() < nh && rng.chance(1, 3) { let d = rng.pick(&names).clone(); names.push(d); } }
        let hdrs: Vec<(Vec<u8>, Vec<u8>)> = names.iter().map(|n| (n.clone().into_bytes(), { let l = rng.usize_below(16); (0..l).map(|_| rng.range(0x20, 0x7e) as u8).collect() })).collect();
        // read the map's iteration order back and hand it to the model
        let mut rb = http::Response::builder().status(st);
        for (n, v) in &hdrs { rb = rb.header(&n[..], &v[..]); }
        let resp = rb.body(()).unwrap();
        let order: Vec<(Vec<u8>, Vec<u8>)> = resp.headers().iter().map(|(n, v)| (n.as_str().as_bytes().to_vec(), v.as_bytes().to_vec())).collect();
        let mut exp: Vec<u8> = format!("Status: {code} {}", st.canonical_reason().unwrap_or("Custom")).into_bytes();
        for (n, v) in &order { exp.push(b'\n'); exp.extend(n); exp.extend(b": "); exp.extend(v); }
        exp.extend(b"\n\n");
        for cap in ["vec".to_string(), "drip1".to_string(), format!("drip{}", 2 + rng.usize_below(9)), exp.len().to_string(), (exp.len() - 1).to_string(), rng.usize_below(exp.len()).to_string()] {
            let op = format!("resp.httph {cap} {code} {rarg} {}", pairs_arg(&order));
            let o = ex(&mut log, &mut im, &op);
            let fits = cap == "vec" || cap.starts_with("drip") || cap.parse::<usize>().unwrap() >= exp.len();
            let good = if fits { o == format!("ok {} out={}", exp.len(), hexd(&exp)) } else { o.starts_with("err out=") && exp.starts_with(&unhex(&o[8..])) };
            if !good { or.fail(format!("http_headers({code}, {nh} headers) capacity {cap}: `{}`", &o[..o.len().min(120)]), format!("# case flat-oracle\n{op}"), format!("http:{code}:{cap}")); }
            or.eval(("http", code, &order, &cap), true);
        }
    }
    log.case("flat-redirect");
    for i in 0..ctx.n(150, 3000) {
        let loc: String = match i { 0 => "".into(), 1 => "/".into(), 2 => "https://example.com/foo?q=bar#baz".into(), _ => { let l = rng.usize_below(60); (0..l).map(|_| if rng.chance(1, 10) { 'é' } else { rng.range(0x21, 0x7e) as u8 as char }).collect() } };
        let mut exp = b"Location: ".to_vec(); exp.extend(loc.as_bytes()); exp.extend(b"\n\n");
        let total = exp.len();
        let mut caps: Vec<String> = vec!["vec".into(), "drip1".into(), format!("drip{}", 2 + rng.usize_below(9))];   // drip<k>: a writer accepting k bytes per write call
        for c in 0..=total + 1 { if total <= 40 || c < 14 || c + 6 > total || rng.chance(1, 6) { caps.push(c.to_string()); } }
        for cap in caps {
            let op = format!("resp.redirect {cap} {}", hexd(loc.as_bytes()));
            let o = ex(&mut log, &mut im, &op);
            let fits = cap == "vec" || cap.starts_with("drip") || cap.parse::<usize>().unwrap() >= total;
            let good = if fits { o == format!("ok {total} out={}", hexd(&exp)) } else { o.starts_with("err out=") && exp.starts_with(&unhex(&o[8..])) };
            if !good { or.fail(format!("simple_redirect({loc:?}) capacity {cap}: `{o}`"), format!("# case flat-oracle\n{op}"), format!("redirect:{cap}:{total}")); }
            or.eval(("redir", &loc, &cap), true);
        }
        if i == 2 { or.sample(format!("resp.redirect vec {} -> {}", hexd(loc.as_bytes()), String::from_utf8_lossy(&exp).escape_default())); }
    }
    or.count_n("corr_ops", log.nops);
    log.finish();
    or.write(&ctx.dir);
}
