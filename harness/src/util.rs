//! Shared harness plumbing: one PRNG, hex, the op/observation log and the oracle report.
use std::collections::{BTreeMap, HashSet};
use std::fs::File;
use std::hash::{Hash, Hasher};
use std::io::{BufWriter, Write};
use std::path::{Path, PathBuf};

/// xorshift64* — every random choice of a run derives from one state (VERIF_SEED).
#[derive(Clone)]
pub struct Rng(pub u64);
impl Rng {
    pub fn new(seed: u64) -> Self {
        let mut r = Rng(seed.wrapping_mul(0x9E37_79B9_7F4A_7C15) ^ 0xD1B5_4A32_D192_ED03);
        if r.0 == 0 { r.0 = 0x1234_5678_9abc_def1; }
        for _ in 0..4 { r.next(); }
        r
    }
    pub fn next(&mut self) -> u64 {
        let mut x = self.0;
        x ^= x >> 12; x ^= x << 25; x ^= x >> 27;
        self.0 = x;
        x.wrapping_mul(0x2545_F491_4F6C_DD1D)
    }
    /// uniform in 0..n (n > 0)
    pub fn below(&mut self, n: u64) -> u64 { self.next() % n }
    pub fn range(&mut self, lo: u64, hi_incl: u64) -> u64 { lo + self.below(hi_incl - lo + 1) }
    pub fn usize_below(&mut self, n: usize) -> usize { self.below(n as u64) as usize }
    pub fn chance(&mut self, num: u64, den: u64) -> bool { self.below(den) < num }
    pub fn pick<'a, T>(&mut self, xs: &'a [T]) -> &'a T { &xs[self.usize_below(xs.len())] }
    pub fn bytes(&mut self, n: usize) -> Vec<u8> { (0..n).map(|_| self.next() as u8).collect() }
    pub fn fork(&mut self) -> Rng { Rng::new(self.next()) }
}

pub fn hex(b: &[u8]) -> String {
    let mut s = String::with_capacity(b.len() * 2);
    for x in b { s.push_str(&format!("{x:02x}")); }
    s
}
pub fn hexd(b: &[u8]) -> String { if b.is_empty() { "-".into() } else { hex(b) } }
pub fn unhex(s: &str) -> Vec<u8> {
    if s == "-" { return vec![]; }
    (0..s.len() / 2).map(|i| u8::from_str_radix(&s[2 * i..2 * i + 2], 16).expect("hex")).collect()
}

pub fn json_str(s: &str) -> String {
    let mut o = String::from("\"");
    for c in s.chars() {
        match c {
            '"' => o.push_str("\\\""),
            '\\' => o.push_str("\\\\"),
            '\n' => o.push_str("\\n"),
            '\r' => o.push_str("\\r"),
            '\t' => o.push_str("\\t"),
            c if (c as u32) < 0x20 => o.push_str(&format!("\\u{:04x}", c as u32)),
            c => o.push(c),
        }
    }
    o.push('"');
    o
}

/// Correspondence log: `ops.txt` (fed to the Lean driver) and `impl.txt` (what the real code did).
pub struct Log {
    ops: BufWriter<File>,
    imp: BufWriter<File>,
    pub nops: u64,
    pub ncases: u64,
    /// current case: (id, op lines) kept so that oracle failures can carry their replay block
    pub cur: Vec<String>,
    pub cur_id: String,
}
impl Log {
    pub fn new(dir: &Path) -> Self {
        let ops = BufWriter::new(File::create(dir.join("ops.txt")).expect("ops.txt"));
        let imp = BufWriter::new(File::create(dir.join("impl.txt")).expect("impl.txt"));
        Log { ops, imp, nops: 0, ncases: 0, cur: vec![], cur_id: String::new() }
    }
    pub fn case(&mut self, id: &str) {
        writeln!(self.ops, "# case {id}").unwrap();
        writeln!(self.imp, "# case {id}").unwrap();
        self.ncases += 1;
        self.cur.clear();
        self.cur_id = id.to_string();
    }
    pub fn op(&mut self, op: &str, obs: &str) {
        debug_assert!(!op.contains('\n') && !obs.contains('\n'));
        writeln!(self.ops, "{op}").unwrap();
        writeln!(self.imp, "{obs}").unwrap();
        self.nops += 1;
        self.cur.push(op.to_string());
    }
    pub fn replay_block(&self) -> String {
        format!("# case {}\n{}", self.cur_id, self.cur.join("\n"))
    }
    pub fn finish(mut self) {
        self.ops.flush().unwrap();
        self.imp.flush().unwrap();
    }
}

pub struct Failure { pub what: String, pub replay: String, pub signature: String }

/// Property oracle report: what was evaluated on the real code and what failed.
pub struct Oracle {
    pub property: String,
    pub evaluations: u64,
    distinct: HashSet<u64>,
    pub rule: String,
    pub dist: BTreeMap<String, u64>,
    pub samples: Vec<String>,
    pub failures: Vec<Failure>,
    pub exhaustive: Vec<String>,
    pub notes: Vec<String>,
}
impl Oracle {
    pub fn new(property: &str, rule: &str) -> Self {
        Oracle { property: property.into(), evaluations: 0, distinct: HashSet::new(), rule: rule.into(),
                 dist: BTreeMap::new(), samples: vec![], failures: vec![], exhaustive: vec![], notes: vec![] }
    }
    /// one evaluated case; `key` identifies it for distinctness, `nontrivial` by the stated rule
    pub fn eval<K: Hash>(&mut self, key: K, nontrivial: bool) {
        self.evaluations += 1;
        if nontrivial {
            let mut h = std::collections::hash_map::DefaultHasher::new();
            key.hash(&mut h);
            self.distinct.insert(h.finish());
        }
    }
    /// bulk accounting for exhaustive loops whose cases are distinct by construction
    pub fn eval_bulk(&mut self, n: u64, nontrivial_distinct: u64, salt: &str) {
        self.evaluations += n;
        // record distinct cases as synthetic keys (bounded memory): count only
        for i in 0..nontrivial_distinct.min(4096) {
            let mut h = std::collections::hash_map::DefaultHasher::new();
            (salt, i).hash(&mut h);
            self.distinct.insert(h.finish());
        }
        if nontrivial_distinct > 4096 {
            *self.dist.entry(format!("bulk_distinct[{salt}]")).or_insert(0) += nontrivial_distinct;
        }
    }
    pub fn count(&mut self, k: &str) { *self.dist.entry(k.to_string()).or_insert(0) += 1; }
    pub fn count_n(&mut self, k: &str, n: u64) { *self.dist.entry(k.to_string()).or_insert(0) += n; }
    pub fn sample(&mut self, s: String) { if self.samples.len() < 6 { self.samples.push(s); } }
    pub fn fail(&mut self, what: String, replay: String, signature: String) {
        if self.failures.len() < 50 { self.failures.push(Failure { what, replay, signature }); }
        else { self.count("failures_not_recorded"); }
    }
    /// 50 failures are recorded with their replays; once that many (plus a margin) have been seen a family stops generating
    /// further cases: more of the same adds nothing, and a broken implementation can make cases arbitrarily expensive
    pub fn saturated(&self) -> bool { self.failures.len() >= 50 && self.dist.get("failures_not_recorded").copied().unwrap_or(0) >= 150 }
    pub fn check(&mut self, cond: bool, what: impl FnOnce() -> (String, String, String)) -> bool {
        if !cond { let (w, r, s) = what(); self.fail(w, r, s); }
        cond
    }
    pub fn distinct_nontrivial(&self) -> u64 {
        let bulk: u64 = self.dist.iter().filter(|(k, _)| k.starts_with("bulk_distinct[")).map(|(_, v)| *v).sum();
        self.distinct.len() as u64 + bulk.saturating_sub(
            self.dist.keys().filter(|k| k.starts_with("bulk_distinct[")).count() as u64 * 4096)
    }
    pub fn write(&self, dir: &Path) {
        let mut s = String::new();
        s.push_str("{\n");
        s.push_str(&format!("  \"property\": {},\n", json_str(&self.property)));
        s.push_str(&format!("  \"evaluations\": {},\n", self.evaluations));
        s.push_str(&format!("  \"distinct_nontrivial\": {},\n", self.distinct_nontrivial()));
        s.push_str(&format!("  \"rule\": {},\n", json_str(&self.rule)));
        s.push_str("  \"distribution\": {");
        s.push_str(&self.dist.iter().map(|(k, v)| format!("{}: {}", json_str(k), v)).collect::<Vec<_>>().join(", "));
        s.push_str("},\n");
        s.push_str("  \"samples\": [");
        s.push_str(&self.samples.iter().map(|x| json_str(x)).collect::<Vec<_>>().join(", "));
        s.push_str("],\n");
        s.push_str("  \"exhaustive\": [");
        s.push_str(&self.exhaustive.iter().map(|x| json_str(x)).collect::<Vec<_>>().join(", "));
        s.push_str("],\n");
        s.push_str("  \"notes\": [");
        s.push_str(&self.notes.iter().map(|x| json_str(x)).collect::<Vec<_>>().join(", "));
        s.push_str("],\n");
        s.push_str("  \"failures\": [");
        s.push_str(&self.failures.iter().map(|f| format!(
            "{{\"what\": {}, \"replay\": {}, \"signature\": {}}}", json_str(&f.what), json_str(&f.replay), json_str(&f.signature)
        )).collect::<Vec<_>>().join(", "));
        s.push_str("]\n}\n");
        std::fs::write(dir.join("oracle.json"), s).expect("oracle.json");
    }
}

pub struct Ctx {
    pub tier_thorough: bool,
    pub seed: u64,
    pub dir: PathBuf,
    pub rng: Rng,
    /// when set, the harness re-executes the op block in this file instead of generating
    pub replay: Option<PathBuf>,
    /// scale factor for generated case counts (forced up when a theorem/correspondence broke)
    pub widen: bool,
}
impl Ctx {
    pub fn n(&self, quick: u64, thorough: u64) -> u64 {
        if self.tier_thorough || self.widen { thorough } else { quick }
    }
}

/// Run a closure, mapping a panic to `Err(message)`.
pub fn catch<T>(f: impl FnOnce() -> T) -> Result<T, String> {
    match std::panic::catch_unwind(std::panic::AssertUnwindSafe(f)) {
        Ok(v) => Ok(v),
        Err(e) => Err(if let Some(s) = e.downcast_ref::<&str>() { (*s).to_string() }
                      else if let Some(s) = e.downcast_ref::<String>() { s.clone() }
                      else { "panic".to_string() }),
    }
}
