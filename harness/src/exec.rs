//! Interpreter of the line protocol on the REAL crate.  Mirrors `lean/Driver/Main.lean`:
//! one op line in, one observation line out.  Used for generated cases and for replays.
use crate::util::*;
use fastcgi_server::protocol as fcgi;
use fcgi::varint::VarInt;
use std::io::ErrorKind;
use std::borrow::Cow;
use std::hash::{Hash, Hasher};
use fastcgi_server::cgi::{OwnedVarName, StaticVarName, VarName};
use fastcgi_server::{Config, ExitStatus};

/// A `Hasher` that records the sequence of `write` calls (the property quantifies over arbitrary hashers:
/// equal write sequences give equal hashes for every hasher).
#[derive(Default)]
pub struct RecHasher(pub Vec<Vec<u8>>);
impl Hasher for RecHasher {
    fn finish(&self) -> u64 { 0 }
    fn write(&mut self, bytes: &[u8]) { self.0.push(bytes.to_vec()); }
}
pub fn rec_hash<T: Hash + ?Sized>(t: &T) -> Vec<Vec<u8>> { let mut h = RecHasher::default(); t.hash(&mut h); h.0 }

pub fn mk_owned(ctor: &str, arg: &[u8]) -> Option<OwnedVarName> {
    let s = String::from_utf8(arg.to_vec()).ok()?;
    Some(match ctor {
        "str" => OwnedVarName::from(s.as_str()),
        "varname" => OwnedVarName::from(VarName::new(&s)),
        "toowned" => VarName::new(&s).to_owned(),
        "cowb" => OwnedVarName::from(Cow::Borrowed(s.as_str())),
        "cowo" => OwnedVarName::from(Cow::<str>::Owned(s)),
        "string" => OwnedVarName::from(s),
        "box" => OwnedVarName::from(s.into_boxed_str()),
        "mutstr" => { let mut m = s; OwnedVarName::from_mut_str(&mut m) }
        "static" => OwnedVarName::from(s.parse::<StaticVarName>().ok()?),
        "header" => OwnedVarName::from(&http::header::HeaderName::from_bytes(arg).ok()?),
        _ => return None,
    })
}
fn ord_str(o: std::cmp::Ordering) -> &'static str { match o { std::cmp::Ordering::Less => "lt", std::cmp::Ordering::Equal => "eq", std::cmp::Ordering::Greater => "gt" } }
fn parse_pairs(s: &str) -> Option<Vec<(Vec<u8>, Vec<u8>)>> {
    if s == "-" { return Some(vec![]); }
    s.split(',').map(|it| { let (a, b) = it.split_once(':')?; Some((unhex(a), unhex(b))) }).collect()
}
fn proto_err(e: &fcgi::Error) -> String {
    match e {
        fcgi::Error::UnknownVersion(v) => format!("err version {v}"),
        fcgi::Error::UnknownRecordType(t) => format!("err rtype {t}"),
        fcgi::Error::UnknownRole(r) => format!("err role {r}"),
        fcgi::Error::UnknownStatus(x) => format!("err status {x}"),
        e => format!("err other {e:?}"),
    }
}
fn arr8(b: &[u8]) -> Option<[u8; 8]> { b.try_into().ok() }
pub fn config(buffer_size: usize, max_conns: usize) -> Config {
    let mut c = Config::with_conns(std::num::NonZeroUsize::new(max_conns.max(1)).unwrap());
    c.buffer_size = buffer_size;
    c
}
/// a growable writer that accepts at most `k` bytes per `write` call (`write_all` has to loop)
pub struct DripW { pub out: Vec<u8>, pub k: usize }
impl std::io::Write for DripW {
    fn write(&mut self, buf: &[u8]) -> std::io::Result<usize> { let n = self.k.min(buf.len()); self.out.extend(&buf[..n]); Ok(n) }
    fn flush(&mut self) -> std::io::Result<()> { Ok(()) }
}
fn sink_run(cap: &str, f: impl Fn(&mut dyn std::io::Write) -> std::io::Result<usize>) -> Option<String> {
    let (res, out) = if let Some(k) = cap.strip_prefix("drip") {
        let mut w = DripW { out: vec![], k: k.parse::<usize>().ok()?.max(1) };
        let r = f(&mut w);
        (r, w.out)
    } else if cap == "vec" {
        let mut o: Vec<u8> = Vec::new();
        let r = f(&mut o);
        (r, o)
    } else {
        let c: usize = cap.parse().ok()?;
        let mut buf = vec![0u8; c];
        let mut w = &mut buf[..];
        let r = f(&mut w);
        let left = w.len();
        buf.truncate(c - left);
        (r, buf)
    };
    Some(match res {
        Ok(n) => format!("ok {n} out={}", hexd(&out)),
        Err(e) if e.kind() == ErrorKind::WriteZero => format!("err out={}", hexd(&out)),
        Err(e) => format!("err-other {:?} out={}", e.kind(), hexd(&out)),
    })
}

use fastcgi_server::parser::{self, request, stream};

pub enum Cur {
    None,
    Req(request::Parser<'static>),
    Str(stream::Parser<'static>),
}
impl Default for Cur { fn default() -> Self { Cur::None } }

use crate::mock::*;
use fastcgi_server::async_io::{Request as AReq, StreamWriter};
use futures_util::io::{AsyncBufRead, AsyncRead, AsyncWrite};
use std::future::Future;
use std::pin::Pin;
use std::sync::{Arc, Mutex};
use std::task::{Context, Poll};

pub type Req<'a> = AReq<'a, MockR, MockW>;
type CloseFut = Pin<Box<dyn Future<Output = std::io::Result<(request::Parser<'static>, MockR, MockW)>>>>;
type WFut = Pin<Box<dyn Future<Output = std::io::Result<()>>>>;

#[derive(Default)]
pub struct AState {
    pub req: Option<Box<Req<'static>>>,
    pub writers: Vec<Option<StreamWriter<MockW>>>,
    pub shared: Option<Arc<Mutex<Shared>>>,
    pub wfut: Option<WFut>,
    pub close: Option<CloseFut>,
    pub wlog_seen: usize,
    pub writeable_last: String,
}

pub struct CountWaker(pub std::sync::atomic::AtomicUsize);
impl std::task::Wake for CountWaker {
    fn wake(self: Arc<Self>) { self.0.fetch_add(1, std::sync::atomic::Ordering::SeqCst); }
    fn wake_by_ref(self: &Arc<Self>) { self.0.fetch_add(1, std::sync::atomic::Ordering::SeqCst); }
}
type TokenFut = Pin<Box<dyn Future<Output = fastcgi_server::async_io::Token>>>;
#[derive(Default)]
pub struct KState {
    pub runners: Vec<&'static fastcgi_server::async_io::Runner>,
    pub futs: Vec<Option<(TokenFut, Arc<CountWaker>)>>,
    pub tokens: Vec<Option<fastcgi_server::async_io::Token>>,
    pub shutdown: Option<(Pin<Box<dyn Future<Output = ()>>>, Arc<CountWaker>)>,
    /// a second waker for the shutdown future (`g.poll2`): the wake-up must go to whichever polled last
    pub cw2: Option<Arc<CountWaker>>,
    /// `g.new n c`: a clone of the runner and `c` tokens obtained from it, alive for the whole history — they share the connection
    /// limit with the original but NOT its shutdown ("Clone shares sema, not stop/wg")
    pub clone_side: Option<(fastcgi_server::async_io::Runner, Vec<fastcgi_server::async_io::Token>)>,
}
impl KState {
    fn suffix(&self) -> String {
        let live = self.tokens.iter().filter(|t| t.is_some()).count();
        let items: Vec<String> = self.futs.iter().enumerate().filter_map(|(i, f)| f.as_ref().map(|(_, w)| format!("{i}:{}", w.0.load(std::sync::atomic::Ordering::SeqCst)))).collect();
        // the semaphore's free count is not observable: report max - live - (permits held by nobody is exactly that)
        format!(" live={live} free=? wakes={}", if items.is_empty() { "-".to_string() } else { items.join(",") })
    }
}

#[derive(Default)]
pub struct Impl {
    pub cur: Cur,
    pub a: AState,
    pub k: KState,
}
fn kv<'a>(args: &'a [&'a str], key: &str) -> Option<&'a str> { args.iter().find_map(|a| a.strip_prefix(key).and_then(|r| r.strip_prefix('='))) }


pub fn perr(e: &parser::Error) -> String {
    use parser::Error::*;
    match e {
        Paniced => "paniced".into(), StuckOnInput => "stuck".into(), Interrupted => "interrupted".into(),
        UnknownVersion(v) => format!("version:{v}"), InvalidRequestLen(n) => format!("reqlen:{n}"),
        NullRequest => "nullreq".into(), AbortRequest => "abort".into(), Protocol(_) => "protocol".into(),
        _ => "other".into(),
    }
}
pub fn env_str(r: &parser::Request) -> String {
    let mut items: Vec<String> = r.env_iter().map(|(k, v)| format!("{}:{}", hexd(k.as_ref().as_bytes()), hexd(v))).collect();
    if items.is_empty() { return "-".into(); }
    items.sort();
    items.join(",")
}
pub fn env_str_async(r: &Req) -> String {
    let mut items: Vec<String> = r.env_iter().map(|(k, v)| format!("{}:{}", hexd(k.as_ref().as_bytes()), hexd(v))).collect();
    if items.is_empty() { return "-".into(); }
    items.sort();
    items.join(",")
}
/// The accessor API against the iterator: `acc=ok` iff env_len / contains_var / get_var / get_var_str agree with env_iter for
/// every entry — looked up by the stored spelling and by the lower-cased one — and an absent name is reported absent.
pub fn acc_digest(r: &parser::Request) -> String {
    use fastcgi_server::cgi::VarName;
    let items: Vec<(String, Vec<u8>)> = r.env_iter().map(|(k, v)| (k.as_ref().to_string(), v.to_vec())).collect();
    if r.env_len() != items.len() { return format!("bad:env_len={}!={}", r.env_len(), items.len()); }
    if r.env_iter().len() != items.len() { return "bad:iter-len".into(); }
    for (k, v) in &items {
        for name in [k.clone(), k.to_ascii_lowercase()] {
            let vn = VarName::new(&name);
            if !r.contains_var(vn) { return format!("bad:contains_var({})", hexd(name.as_bytes())); }
            if r.get_var(vn) != Some(&v[..]) { return format!("bad:get_var({})", hexd(name.as_bytes())); }
            if r.get_var_str(vn) != std::str::from_utf8(v).ok() { return format!("bad:get_var_str({})", hexd(name.as_bytes())); }
        }
    }
    let absent = "X_VERIF_ABSENT_\u{e9}";
    if !items.iter().any(|(k, _)| k.eq_ignore_ascii_case(absent)) { let vn = VarName::new(absent); if r.contains_var(vn) || r.get_var(vn).is_some() || r.get_var_str(vn).is_some() { return "bad:absent-name-found".into(); } }
    "ok".into()
}
pub fn req_str(r: &parser::Request) -> String {
    format!("id={} role={} flags={} env={} acc={}", r.request_id, u16::from(r.role), u8::from(r.flags), env_str(r), acc_digest(r))
}
fn into_request_str(p: request::Parser<'static>) -> String {
    match p.into_request() { Ok((r, left)) => format!("ok {} left={}", req_str(&r), hexd(&left)), Err(e) => format!("err {}", perr(&e)) }
}
fn opt_stream(s: Option<fcgi::RecordType>) -> String { s.map_or("none".into(), |t| u8::from(t).to_string()) }
fn str_state(p: &mut stream::Parser<'static>) -> String {
    format!("buf={} outbuf={} free={} boundary={} active={}", hexd(p.stream_buffer()), hexd(p.output_buffer()), p.input_buffer().len(), p.is_record_boundary(), opt_stream(p.active_stream()))
}

fn pairs_str(ps: &[(Vec<u8>, Vec<u8>)]) -> String {
    if ps.is_empty() { "-".into() } else { ps.iter().map(|(n, v)| format!("{}:{}", hexd(n), hexd(v))).collect::<Vec<_>>().join(",") }
}

impl Impl {
    pub fn new() -> Self { Self::default() }

    /// observation suffix shared by all `a.*` ops: writeable flag, transport events, bytes written during the op
    fn a_suffix(&mut self) -> String {
        let w = match (&self.a.req, &self.a.wfut) { (Some(r), None) => { let s = r.is_writeable().to_string(); self.a.writeable_last = s.clone(); s }
                                                     (Some(_), Some(_)) => "?".into(), _ => "-".into() };
        let Some(sh) = &self.a.shared else { return format!(" w={w} ev=- wd=-") };
        let mut s = sh.lock().unwrap();
        let ev = if s.events.is_empty() { "-".to_string() } else { s.events.join(",") };
        s.events.clear();
        let wd = hexd(&s.wlog[self.a.wlog_seen..]);
        self.a.wlog_seen = s.wlog.len();
        format!(" w={w} ev={ev} wd={wd}")
    }
    /// Executes one op; a panic inside the crate is an observation (`panic <msg>`).
    pub fn exec(&mut self, line: &str) -> String {
        if line.starts_with('#') { return line.to_string(); }
        let a: Vec<&str> = line.split(' ').filter(|s| !s.is_empty()).collect();
        match catch(|| self.exec_inner(&a)) {
            Ok(Some(s)) => s,
            Ok(None) => "bad-op".into(),
            Err(_) => "panic".into(),
        }
    }

    fn exec_inner(&mut self, a: &[&str]) -> Option<String> {
        Some(match a {
            ["req.new", b, mc] => {
                let cfg: &'static Config = Box::leak(Box::new(config(b.parse().ok()?, mc.parse().ok()?)));
                let mut p = request::Parser::new(cfg);
                let f = p.input_buffer().len();
                self.cur = Cur::Req(p);
                format!("free={f}")
            }
            ["req.feed", h] => {
                let bs = unhex(h);
                let Cur::Req(p) = &mut self.cur else { return Some("no-parser".into()) };
                let buf = p.input_buffer();
                if bs.len() <= buf.len() { buf[..bs.len()].copy_from_slice(&bs); }
                let y = p.parse(bs.len());
                let (done, out) = (y.done, hexd(y.output));
                format!("done={done} out={out} free={}", p.input_buffer().len())
            }
            ["req.peek"] => { let Cur::Req(p) = &self.cur else { return Some("no-parser".into()) }; into_request_str(p.clone()) }
            ["req.into_request"] => { let Cur::Req(p) = std::mem::take(&mut self.cur) else { return Some("no-parser".into()) }; into_request_str(p) }
            ["req.into_stream"] => {
                let Cur::Req(p) = std::mem::take(&mut self.cur) else { return Some("no-parser".into()) };
                match p.into_stream_parser() {
                    Ok(mut sp) => { let o = format!("ok {} {}", req_str(&sp.request), str_state(&mut sp)); self.cur = Cur::Str(sp); o }
                    Err(e) => format!("err {}", perr(&e)),
                }
            }
            ["req.to_stream_new", b, mc] => {
                // the public constructor stream::Parser::new(config, request) on the request extracted by into_request()
                let Cur::Req(p) = std::mem::take(&mut self.cur) else { return Some("no-parser".into()) };
                match p.into_request() {
                    Ok((r, left)) => {
                        let cfg: &'static Config = Box::leak(Box::new(config(b.parse().ok()?, mc.parse().ok()?)));
                        let mut sp = stream::Parser::new(cfg, r);
                        let o = format!("ok {} {} left={}", req_str(&sp.request), str_state(&mut sp), hexd(&left));
                        self.cur = Cur::Str(sp); o
                    }
                    Err(e) => format!("err {}", perr(&e)),
                }
            }
            ["str.parse", h, d] => {
                let bs = unhex(h);
                let Cur::Str(p) = &mut self.cur else { return Some("no-parser".into()) };
                let buf = p.input_buffer();
                if bs.len() <= buf.len() { buf[..bs.len()].copy_from_slice(&bs); }
                let mut dest: Option<Vec<u8>> = if *d == "none" { None } else { Some(vec![0u8; d.parse().ok()?]) };
                let r = p.parse(bs.len(), dest.as_deref_mut());
                match r {
                    Ok(st) => {
                        let data = match &dest { Some(b) => hexd(&b[..st.stream.min(b.len())]), None => "-".into() };
                        format!("ok stream={} end={} out={} data={} {}", st.stream, st.stream_end, st.output, data, str_state(p))
                    }
                    Err(e) => format!("err {} {}", perr(&e), str_state(p)),
                }
            }
            ["str.consume", k] => { let Cur::Str(p) = &mut self.cur else { return Some("no-parser".into()) }; p.consume_stream(k.parse().ok()?); str_state(p) }
            ["str.compress"] => { let Cur::Str(p) = &mut self.cur else { return Some("no-parser".into()) }; p.compress(); str_state(p) }
            ["str.consume_output", k] => { let Cur::Str(p) = &mut self.cur else { return Some("no-parser".into()) }; p.consume_output(k.parse().ok()?); str_state(p) }
            ["str.set_stream", sv] => {
                let Cur::Str(p) = &mut self.cur else { return Some("no-parser".into()) };
                let st = if *sv == "none" { None } else { Some(fcgi::RecordType::try_from(sv.parse::<u8>().ok()?).ok()?) };
                match catch(|| p.set_stream(st)) {
                    Ok(Ok(())) => format!("ok {}", str_state(p)),
                    Ok(Err(_)) => format!("rejected {}", str_state(p)),
                    Err(_) => format!("panic {}", str_state(p)),
                }
            }
            ["str.peek_input"] => { let Cur::Str(p) = &self.cur else { return Some("no-parser".into()) };
                match p.clone().into_input() { Ok(b) => format!("ok {}", hexd(&b)), Err(e) => format!("err {}", perr(&e)) } }
            ["str.into_input"] => { let Cur::Str(p) = std::mem::take(&mut self.cur) else { return Some("no-parser".into()) };
                match p.into_input() { Ok(b) => format!("ok {}", hexd(&b)), Err(e) => format!("err {}", perr(&e)) } }
            ["str.into_req"] => {
                let Cur::Str(p) = std::mem::take(&mut self.cur) else { return Some("no-parser".into()) };
                match p.into_request_parser() {
                    Ok(mut rp) => { let f = rp.input_buffer().len(); self.cur = Cur::Req(rp); format!("ok free={f}") }
                    Err(e) => format!("err {}", perr(&e)),
                }
            }
            ["vi.dec", h] => {
                let bs = unhex(h);
                let mut cur = &bs[..];
                match VarInt::read(&mut cur) {
                    Ok(v) => format!("ok {} {}", u32::from(v), cur.len()),
                    Err(e) if e.kind() == ErrorKind::UnexpectedEof => "eof".into(),
                    Err(e) => format!("err-other {:?}", e.kind()),
                }
            }
            ["vi.decr", h, k] => {
                // a reader that hands out at most k bytes per read() call
                struct Drip<'a> { data: &'a [u8], k: usize }
                impl<'a> std::io::Read for Drip<'a> { fn read(&mut self, buf: &mut [u8]) -> std::io::Result<usize> { let n = self.k.min(buf.len()).min(self.data.len()); buf[..n].copy_from_slice(&self.data[..n]); self.data = &self.data[n..]; Ok(n) } }
                let bs = unhex(h);
                let mut rd = Drip { data: &bs[..], k: k.parse::<usize>().ok()?.max(1) };
                match VarInt::read(&mut rd) {
                    Ok(v) => format!("ok {} {}", u32::from(v), rd.data.len()),
                    Err(e) if e.kind() == ErrorKind::UnexpectedEof => "eof".into(),
                    Err(e) => format!("err-other {:?}", e.kind()),
                }
            }
            ["vi.enc", n] => {
                let v: u32 = n.parse().ok()?;
                match VarInt::try_from(v) {
                    Ok(vi) => {
                        let mut out = Vec::new();
                        match vi.write(&mut out) {
                            Ok(k) if k == out.len() => hex(&out),
                            Ok(k) => format!("count-mismatch {k} {}", hex(&out)),
                            Err(e) => format!("err {:?}", e.kind()),
                        }
                    }
                    Err(_) => "not-a-varint".into(),
                }
            }
            ["vi.encw", n, k] => {
                let v: u32 = n.parse().ok()?;
                match VarInt::try_from(v) {
                    Ok(vi) => { let mut w = DripW { out: vec![], k: k.parse::<usize>().ok()?.max(1) };
                        match vi.write(&mut w) { Ok(c) if c == w.out.len() => hex(&w.out), Ok(c) => format!("count-mismatch {c} {}", hex(&w.out)), Err(e) => format!("err {:?}", e.kind()) } }
                    Err(_) => "not-a-varint".into(),
                }
            }
            ["vi.u32", n] => {
                let x: u64 = n.parse().ok()?;
                match VarInt::try_from(x as u32) { Ok(v) => format!("ok {}", u32::from(v)), Err(_) => "err".into() }
            }
            ["vi.usize", n] => {
                let x: u64 = n.parse().ok()?;
                match VarInt::try_from(x as usize) { Ok(v) => format!("ok {}", u32::from(v)), Err(_) => "err".into() }
            }
            ["nv.all", h] => {
                // both instantiations of the generic iterator must agree with each other and the model
                let bs = unhex(h);
                let mut it = fcgi::nv::NVIter::new(&bs[..]);
                let hint = it.size_hint().1.unwrap_or(usize::MAX);
                let mut ps: Vec<(Vec<u8>, Vec<u8>)> = vec![];
                let base = bs.as_ptr() as usize;
                let mut contiguous = true;
                let mut pos_end = 0usize;
                for (n, v) in &mut it {
                    // zero-copy: sub-slices of the input, name immediately followed by value
                    let ns = n.as_ptr() as usize - base; let vs = v.as_ptr() as usize - base;
                    if ns < pos_end || vs != ns + n.len() { contiguous = false; }
                    pos_end = vs + v.len();
                    ps.push((n.to_vec(), v.to_vec()));
                }
                let fused = it.next().is_none() && it.next().is_none();
                let rest = it.into_inner();
                let rest_is_suffix = rest.as_ptr() as usize + rest.len() == base + bs.len();
                let mut copy = bs.clone();
                let mut itm = fcgi::nv::NVIter::new(&mut copy[..]);
                let psm: Vec<(Vec<u8>, Vec<u8>)> = (&mut itm).map(|(n, v)| (n.to_vec(), v.to_vec())).collect();
                let restm = itm.into_inner().len();
                let agree = psm == ps && restm == rest.len();
                let mut s = format!("{} {} rest={} hint={} guards=true", ps.len(), pairs_str(&ps), rest.len(), hint);
                if !(contiguous && fused && rest_is_suffix && agree) {
                    s.push_str(&format!(" ANOMALY contiguous={contiguous} fused={fused} suffix={rest_is_suffix} mut_agrees={agree}"));
                }
                s
            }
            ["nv.next", h] => {
                let bs = unhex(h);
                let mut it = fcgi::nv::NVIter::new(&bs[..]);
                match it.next() {
                    Some((n, v)) => format!("some {} {} rest={}", hexd(n), hexd(v), it.into_inner().len()),
                    None => { let r = it.into_inner(); if r.len() == bs.len() { "none".into() } else { format!("none-but-consumed {}", bs.len() - r.len()) } }
                }
            }
            ["nv.write", cap, n, v] => {
                let nb = unhex(n); let vb = unhex(v);
                let (res, out): (std::io::Result<usize>, Vec<u8>) = if let Some(k) = cap.strip_prefix("drip") {
                    let mut w = DripW { out: vec![], k: k.parse::<usize>().ok()?.max(1) };
                    let r = fcgi::nv::write((&nb, &vb), &mut w);
                    (r, w.out)
                } else if *cap == "vec" {
                    let mut o = Vec::new();
                    let r = fcgi::nv::write((&nb, &vb), &mut o);
                    (r, o)
                } else {
                    let c: usize = cap.parse().ok()?;
                    let mut buf = vec![0u8; c];
                    let mut w = &mut buf[..];
                    let r = fcgi::nv::write((&nb, &vb), &mut w);
                    let left = w.len();
                    buf.truncate(c - left);
                    (r, buf)
                };
                let rs = match res {
                    Ok(k) => format!("ok {k}"),
                    Err(e) if e.kind() == ErrorKind::InvalidInput => "err invalid-input".into(),
                    Err(e) if e.kind() == ErrorKind::WriteZero => "err write-zero".into(),
                    Err(e) => format!("err other {:?}", e.kind()),
                };
                format!("{rs} out={}", hexd(&out))
            }

            ["hdr.dec", h] => {
                let Some(a8) = arr8(&unhex(h)) else { return Some("short".into()) };
                match fcgi::RecordHeader::from_bytes(a8) {
                    Ok(hd) => format!("ok {} {} {} {} mgmt={} re={}", u8::from(hd.rtype), hd.request_id, hd.content_length,
                                      hd.padding_length, hd.is_management(), hex(&hd.to_bytes())),
                    Err(e) => proto_err(&e),
                }
            }
            ["hdr.enc", t, i, c, p] => {
                let hd = fcgi::RecordHeader { version: fcgi::Version::V1, rtype: fcgi::RecordType::try_from(t.parse::<u8>().ok()?).ok()?,
                    request_id: i.parse().ok()?, content_length: c.parse().ok()?, padding_length: p.parse().ok()? };
                hex(&hd.to_bytes())
            }
            ["hdr.setlen", c] => {
                let mut hd = fcgi::RecordHeader::new(fcgi::RecordType::Stdin, 1);
                hd.set_lengths(c.parse().ok()?);
                let pb = hd.padding_bytes();
                if pb.len() != usize::from(hd.padding_length) || pb.iter().any(|&b| b != 0) { return Some("padding_bytes-wrong".into()); }
                format!("{} {}", hd.content_length, hd.padding_length)
            }
            ["hdr.setlen2", c1, c2] => {   // the same header value used for two records in a row
                let mut hd = fcgi::RecordHeader::new(fcgi::RecordType::Stdout, 1);
                hd.set_lengths(c1.parse().ok()?);
                hd.set_lengths(c2.parse().ok()?);
                let pb = hd.padding_bytes();
                if pb.len() != usize::from(hd.padding_length) || pb.iter().any(|&b| b != 0) { return Some("padding_bytes-wrong".into()); }
                format!("{} {}", hd.content_length, hd.padding_length)
            }
            ["begin.dec", h] => {
                let Some(a8) = arr8(&unhex(h)) else { return Some("short".into()) };
                match fcgi::body::BeginRequest::from_bytes(a8) {
                    Ok(b) => format!("ok {} {} re={}", u16::from(b.role), u8::from(b.flags), hex(&b.to_bytes())),
                    Err(e) => proto_err(&e),
                }
            }
            ["begin.rec", r, f, i] => {
                let b = fcgi::body::BeginRequest { role: fcgi::Role::try_from(r.parse::<u16>().ok()?).ok()?, flags: fcgi::RequestFlags::from(f.parse::<u8>().ok()?) };
                hex(&b.to_record(i.parse().ok()?))
            }
            ["end.dec", h] => {
                let Some(a8) = arr8(&unhex(h)) else { return Some("short".into()) };
                match fcgi::body::EndRequest::from_bytes(a8) {
                    Ok(e) => format!("ok {} {} re={}", e.app_status, u8::from(e.protocol_status), hex(&e.to_bytes())),
                    Err(e) => proto_err(&e),
                }
            }
            ["end.rec", ap, ps, i] => {
                let e = fcgi::body::EndRequest { app_status: ap.parse().ok()?, protocol_status: fcgi::ProtocolStatus::try_from(ps.parse::<u8>().ok()?).ok()? };
                hex(&e.to_record(i.parse().ok()?))
            }
            ["unk.dec", h] => {
                let Some(a8) = arr8(&unhex(h)) else { return Some("short".into()) };
                let u = fcgi::body::UnknownType::from_bytes(a8);
                format!("ok {} re={}", u.rtype, hex(&u.to_bytes()))
            }
            ["unk.rec", t, i] => hex(&fcgi::body::UnknownType { rtype: t.parse().ok()? }.to_record(i.parse().ok()?)),
            ["exit.map", k, c] => {
                let code: u32 = c.parse().ok()?;
                let st = match *k { "complete" => ExitStatus::Complete(code), "overloaded" => ExitStatus::Overloaded, "unknownrole" => ExitStatus::UnknownRole,
                                    "abort" => ExitStatus::ABORT, "success" => ExitStatus::SUCCESS, _ => return None };
                let e = fcgi::body::EndRequest::from(st);
                format!("{} {}", e.app_status, u8::from(e.protocol_status))
            }
            ["vars.name", h] => match fcgi::ProtocolVariables::parse_name(&unhex(h)) { Ok(v) => format!("ok {}", v.bits()), Err(_) => "unknown".into() },
            ["vars.resp", set, mc, pre, target] => {
                let pv = fcgi::ProtocolVariables::from_bits_truncate(set.parse().ok()?);
                let cfg = config(8192, mc.parse().ok()?);
                let preb = unhex(pre);
                let (n, out): (usize, Vec<u8>) = if *target == "small" {
                    let mut sv: smallvec::SmallVec<[u8; 64]> = smallvec::SmallVec::from_slice(&preb);
                    let n = pv.write_response(&mut sv, &cfg);
                    (n, sv.to_vec())
                } else {
                    let mut v = preb.clone();
                    let n = pv.write_response(&mut v, &cfg);
                    (n, v)
                };
                format!("{} {} preserved={}", n, hex(&out[preb.len().min(out.len())..]), out.len() >= preb.len() && out[..preb.len()] == preb[..])
            }
            ["cfg.aligned", b] => {
                let cfg = config(b.parse().ok()?, 1);
                let mut p = fastcgi_server::parser::request::Parser::new(&cfg);
                format!("{}", p.input_buffer().len())
            }
            ["role.streams", r] => {
                let role = fcgi::Role::try_from(r.parse::<u16>().ok()?).ok()?;
                let f = |l: &[fcgi::RecordType]| if l.is_empty() { "-".to_string() } else { l.iter().map(|&t| u8::from(t).to_string()).collect::<Vec<_>>().join(",") };
                format!("in={} out={}", f(role.input_streams()), f(role.output_streams()))
            }
            ["role.next", r, c] => {
                let role = fcgi::Role::try_from(r.parse::<u16>().ok()?).ok()?;
                let cur = if *c == "none" { None } else { Some(fcgi::RecordType::try_from(c.parse::<u8>().ok()?).ok()?) };
                match role.next_input_stream(cur) { None => "none".into(), Some(t) => u8::from(t).to_string() }
            }
            ["name.rel", a, b] => {
                let (sa, sb) = (String::from_utf8(unhex(a)).ok()?, String::from_utf8(unhex(b)).ok()?);
                let (x, y) = (VarName::new(&sa), VarName::new(&sb));
                format!("eq={} cmp={} heq={}", x == y, ord_str(x.cmp(y)), rec_hash(x) == rec_hash(y))
            }
            ["name.hash", a] => {
                let sa = String::from_utf8(unhex(a)).ok()?;
                rec_hash(VarName::new(&sa)).iter().map(|w| hex(w)).collect::<Vec<_>>().join("|")
            }
            ["static.parse", a] => {
                let sa = String::from_utf8(unhex(a)).ok()?;
                match sa.parse::<StaticVarName>() { Ok(s) => format!("ok {}", hexd(s.as_ref().as_bytes())), Err(_) => "err".into() }
            }
            ["owned.mk", c, a] => { let o = mk_owned(c, &unhex(a))?; hexd(o.as_ref().as_bytes()) }
            ["owned.rel", c1, a, c2, b] => {
                let x = mk_owned(c1, &unhex(a))?; let y = mk_owned(c2, &unhex(b))?;
                format!("eq={} cmp={} heq={} a={} b={}", x == y, ord_str(x.cmp(&y)), rec_hash(&x) == rec_hash(&y), hexd(x.as_ref().as_bytes()), hexd(y.as_ref().as_bytes()))
            }
            ["resp.redirect", cap, loc] => {
                let l = String::from_utf8(unhex(loc)).ok()?;
                sink_run(cap, |w| fastcgi_server::cgi::response::simple_redirect(w, &l))?
            }
            ["resp.headers", cap, code, _reason, hs] => {
                let st = http::StatusCode::from_u16(code.parse().ok()?).ok()?;
                let hdrs = parse_pairs(hs)?;
                sink_run(cap, |w| fastcgi_server::cgi::response::write_headers(w, st, hdrs.iter().map(|(n, v)| (&n[..], &v[..]))))?
            }
            ["resp.httph", cap, code, _reason, hs] => {
                let st = http::StatusCode::from_u16(code.parse().ok()?).ok()?;
                let hdrs = parse_pairs(hs)?;
                let mut rb = http::Response::builder().status(st);
                for (n, v) in &hdrs { rb = rb.header(&n[..], &v[..]); }
                let resp = rb.body(()).ok()?;
                // the op lists the headers in the map's iteration order (the generator reads it back)
                let order: Vec<(Vec<u8>, Vec<u8>)> = resp.headers().iter().map(|(n, v)| (n.as_str().as_bytes().to_vec(), v.as_bytes().to_vec())).collect();
                if order != hdrs { return Some("order-differs".into()); }
                sink_run(cap, |w| fastcgi_server::cgi::response::http_headers(w, &resp))?
            }

            ["a.new", b, mc, id, role, flags, rest @ ..] => {
                let inp = unhex(kv(rest, "in")?);
                let la: usize = kv(rest, "la")?.parse().ok()?;
                let end = match kv(rest, "end")? { "eof" => EndMode::Eof, "pend" => EndMode::Pend, _ => EndMode::Err };
                let cfg: &'static Config = Box::leak(Box::new(config(b.parse().ok()?, mc.parse().ok()?)));
                let rid: u16 = id.parse().ok()?;
                let mut rp = request::Parser::new(cfg);
                let mut pre = fcgi::body::BeginRequest { role: fcgi::Role::try_from(role.parse::<u16>().ok()?).ok()?, flags: fcgi::RequestFlags::from(flags.parse::<u8>().ok()?) }.to_record(rid).to_vec();
                pre.extend(fcgi::RecordHeader::new(fcgi::RecordType::Params, rid).to_bytes());
                pre.extend(&inp[..la]);
                let buf = rp.input_buffer();
                if pre.len() > buf.len() { return Some("panic".into()); }
                buf[..pre.len()].copy_from_slice(&pre);
                let _ = rp.parse(pre.len());
                match rp.into_stream_parser() {
                    Ok(sp) => {
                        let active = opt_stream(sp.active_stream());
                        let sh = Shared::new(&inp[la..], end, parse_rd(kv(rest, "rd")?), parse_wr(kv(rest, "wr")?), parse_fl(kv(rest, "fl")?));
                        sh.lock().unwrap().abort_kind = kv(rest, "ek") == Some("a");
                        let req = Box::new(AReq::new(sp, MockR(sh.clone()), MockW(sh.clone())));
                        self.a = AState { req: Some(req), shared: Some(sh), ..Default::default() };
                        format!("ok active={active}{}", self.a_suffix())
                    }
                    Err(e) => format!("err {}", perr(&e)),
                }
            }
            ["a.read", n] => {
                if self.a.wfut.is_some() || self.a.close.is_some() { return Some("busy".into()); }
                let Some(req) = self.a.req.as_mut() else { return Some("busy".into()) };
                let mut buf = vec![0u8; n.parse().ok()?];
                let w = futures_util::task::noop_waker(); let mut cx = Context::from_waker(&w);
                let r = catch(|| Pin::new(&mut **req).poll_read(&mut cx, &mut buf));
                let o = match r { Err(_) => "panic".to_string(), Ok(Poll::Pending) => "pending".into(), Ok(Poll::Ready(Ok(k))) => format!("ready {k} {}", hexd(&buf[..k])), Ok(Poll::Ready(Err(e))) => format!("err {}", io_kind(&e)) };
                format!("{o}{}", self.a_suffix())
            }
            ["a.fill"] => {
                if self.a.wfut.is_some() || self.a.close.is_some() { return Some("busy".into()); }
                let Some(req) = self.a.req.as_mut() else { return Some("busy".into()) };
                let w = futures_util::task::noop_waker(); let mut cx = Context::from_waker(&w);
                let r = catch(|| match Pin::new(&mut **req).poll_fill_buf(&mut cx) { Poll::Pending => None, Poll::Ready(Ok(b)) => Some(Ok(b.to_vec())), Poll::Ready(Err(e)) => Some(Err(e)) });
                let o = match r { Err(_) => "panic".to_string(), Ok(None) => "pending".into(), Ok(Some(Ok(b))) => format!("ready {} {}", b.len(), hexd(&b)), Ok(Some(Err(e))) => format!("err {}", io_kind(&e)) };
                format!("{o}{}", self.a_suffix())
            }
            ["a.consume", k] => {
                if self.a.wfut.is_some() || self.a.close.is_some() { return Some("busy".into()); }
                let Some(req) = self.a.req.as_mut() else { return Some("busy".into()) };
                Pin::new(&mut **req).consume(k.parse().ok()?);
                format!("ok{}", self.a_suffix())
            }
            ["a.set_stream", t] => {
                if self.a.wfut.is_some() || self.a.close.is_some() { return Some("busy".into()); }
                let Some(req) = self.a.req.as_mut() else { return Some("busy".into()) };
                let ty = fcgi::RecordType::try_from(t.parse::<u8>().ok()?).ok()?;
                let o = match catch(|| req.set_stream(ty)) { Ok(()) => format!("ok active={}", opt_stream(req.active_stream())), Err(_) => "panic".into() };
                format!("{o}{}", self.a_suffix())
            }
            ["a.writeable"] => {
                if self.a.close.is_some() { return Some("busy".into()); }
                let Some(req) = self.a.req.as_mut() else { return Some("busy".into()) };
                if self.a.wfut.is_none() {
                    // the future borrows the boxed request; it is dropped before the request is touched again
                    let ptr: *mut Req<'static> = &mut **req;
                    let fut: WFut = Box::pin(unsafe { &mut *ptr }.writeable());
                    self.a.wfut = Some(fut);
                }
                let w = futures_util::task::noop_waker(); let mut cx = Context::from_waker(&w);
                let fut = self.a.wfut.as_mut().unwrap();
                let r = catch(|| fut.as_mut().poll(&mut cx));
                let o = match r { Err(_) => { self.a.wfut = None; "panic".to_string() } Ok(Poll::Pending) => "pending".into(),
                    Ok(Poll::Ready(Ok(()))) => { self.a.wfut = None; "ready".into() } Ok(Poll::Ready(Err(e))) => { self.a.wfut = None; format!("err {}", io_kind(&e)) } };
                format!("{o}{}", self.a_suffix())
            }
            ["a.open", t] => {
                let Some(req) = self.a.req.as_ref() else { return Some("busy".into()) };
                let ty = fcgi::RecordType::try_from(t.parse::<u8>().ok()?).ok()?;
                let o = match catch(|| req.output_stream(ty)) { Ok(w) => { self.a.writers.push(Some(w)); format!("w{}", self.a.writers.len() - 1) } Err(_) => "panic".into() };
                format!("{o}{}", self.a_suffix())
            }
            ["a.clone", i] => {
                let idx: usize = i.parse().ok()?;
                let Some(Some(w)) = self.a.writers.get(idx) else { return Some("no-writer".into()) };
                let c = w.clone();
                self.a.writers.push(Some(c));
                format!("w{}{}", self.a.writers.len() - 1, self.a_suffix())
            }
            ["a.wpoll", i, h] => {
                let idx: usize = i.parse().ok()?;
                let buf = unhex(h);
                let Some(Some(wr)) = self.a.writers.get_mut(idx) else { return Some("no-writer".into()) };
                let w = futures_util::task::noop_waker(); let mut cx = Context::from_waker(&w);
                let r = catch(|| Pin::new(&mut *wr).poll_write(&mut cx, &buf));
                let o = match r { Err(_) => "panic".to_string(), Ok(Poll::Pending) => "pending".into(), Ok(Poll::Ready(Ok(k))) => format!("ready {k}"), Ok(Poll::Ready(Err(e))) => format!("err {}", io_kind(&e)) };
                format!("{o}{}", self.a_suffix())
            }
            ["a.fpoll", i] => {
                let idx: usize = i.parse().ok()?;
                let Some(Some(wr)) = self.a.writers.get_mut(idx) else { return Some("no-writer".into()) };
                let w = futures_util::task::noop_waker(); let mut cx = Context::from_waker(&w);
                let r = catch(|| Pin::new(&mut *wr).poll_flush(&mut cx));
                let o = match r { Err(_) => "panic".to_string(), Ok(Poll::Pending) => "pending".into(), Ok(Poll::Ready(Ok(()))) => "ready".into(), Ok(Poll::Ready(Err(e))) => format!("err {}", io_kind(&e)) };
                format!("{o}{}", self.a_suffix())
            }
            ["a.cpoll", i] => {   // AsyncWrite::poll_close of a StreamWriter: closes nothing (the Request ends the streams), does no I/O
                let idx: usize = i.parse().ok()?;
                let Some(Some(wr)) = self.a.writers.get_mut(idx) else { return Some("no-writer".into()) };
                let w = futures_util::task::noop_waker(); let mut cx = Context::from_waker(&w);
                let r = catch(|| Pin::new(&mut *wr).poll_close(&mut cx));
                let o = match r { Err(_) => "panic".to_string(), Ok(Poll::Pending) => "pending".into(), Ok(Poll::Ready(Ok(()))) => "ready".into(), Ok(Poll::Ready(Err(e))) => format!("err {}", io_kind(&e)) };
                format!("{o}{}", self.a_suffix())
            }
            ["a.drop", i] => {
                let idx: usize = i.parse().ok()?;
                let Some(slot) = self.a.writers.get_mut(idx) else { return Some("no-writer".into()) };
                if slot.is_none() { return Some("no-writer".into()); }
                *slot = None;
                format!("ok{}", self.a_suffix())
            }
            ["a.close", k, c] => {
                if self.a.wfut.is_some() { return Some("busy".into()); }
                if self.a.close.is_none() {
                    let Some(req) = self.a.req.take() else { return Some("busy".into()) };
                    let code: u32 = c.parse().ok()?;
                    let st = match *k { "complete" => ExitStatus::Complete(code), "overloaded" => ExitStatus::Overloaded, "unknownrole" => ExitStatus::UnknownRole, "abort" => ExitStatus::ABORT, _ => return None };
                    self.a.writeable_last = "-".into();
                    self.a.close = Some(Box::pin((*req).close(st)));
                }
                let w = futures_util::task::noop_waker(); let mut cx = Context::from_waker(&w);
                let fut = self.a.close.as_mut().unwrap();
                let r = catch(|| fut.as_mut().poll(&mut cx));
                match r {
                    Err(_) => { self.a.close = None; format!("panic{}", self.a_suffix()) }
                    Ok(Poll::Pending) => format!("pending{}", self.a_suffix()),
                    Ok(Poll::Ready(Err(e))) => { self.a.close = None; format!("err {}{}", io_kind(&e), self.a_suffix()) }
                    Ok(Poll::Ready(Ok((mut rp, _r, _w)))) => {
                        self.a.close = None;
                        let free = rp.input_buffer().len();
                        // leftover input handed to the next request parser is observable as capacity minus free; its content
                        // is exposed by the following req.* ops
                        let o = format!("reuse free={free}");
                        let suf = self.a_suffix();
                        self.cur = Cur::Req(rp);
                        format!("{o}{suf}")
                    }
                }
            }

            ["k.new", mx, clones] => {
                let base: &'static fastcgi_server::async_io::Runner = Box::leak(Box::new(config(8192, mx.parse().ok()?).async_runner()));
                let mut runners = vec![base];
                for _ in 0..clones.parse::<usize>().ok()? { runners.push(Box::leak(Box::new(base.clone()))); }
                self.k = KState { runners, ..Default::default() };
                format!("ok{}", self.k.suffix())
            }
            ["k.get", c] => {
                let r = *self.k.runners.get(c.parse::<usize>().ok()?)?;
                let fut: TokenFut = Box::pin(r.get_token());
                self.k.futs.push(Some((fut, Arc::new(CountWaker(Default::default())))));
                format!("a{}{}", self.k.futs.len() - 1, self.k.suffix())
            }
            ["k.poll", a] => {
                let i: usize = a.parse().ok()?;
                let Some(Some((fut, cw))) = self.k.futs.get_mut(i) else { return Some("no-future".into()) };
                let waker = std::task::Waker::from(cw.clone());
                let mut cx = Context::from_waker(&waker);
                match fut.as_mut().poll(&mut cx) {
                    Poll::Ready(t) => { self.k.futs[i] = None; self.k.tokens.push(Some(t)); format!("ready t{}{}", self.k.tokens.len() - 1, self.k.suffix()) }
                    Poll::Pending => format!("pending{}", self.k.suffix()),
                }
            }
            ["k.drop_pending", a] => {
                let i: usize = a.parse().ok()?;
                match self.k.futs.get_mut(i) { Some(slot @ Some(_)) => { *slot = None; format!("ok{}", self.k.suffix()) } _ => "no-future".into() }
            }
            ["k.drop_token", t] => {
                let i: usize = t.parse().ok()?;
                match self.k.tokens.get_mut(i) { Some(slot @ Some(_)) => { *slot = None; format!("ok{}", self.k.suffix()) } _ => "no-token".into() }
            }
            // the same drop, but performed while the thread is unwinding from a panic (the token is a local of a frame that panics — what
            // happens to a connection's token when its handler panics through `Token::run`)
            ["k.drop_token_u", t] => {
                let i: usize = t.parse().ok()?;
                match self.k.tokens.get_mut(i) { Some(slot @ Some(_)) => { let tok = slot.take(); let _ = catch(move || -> () { let _held = tok; panic!("unwinding drop") }); format!("ok{}", self.k.suffix()) } _ => "no-token".into() }
            }
            ["g.new", n] | ["g.new", n, _] => {
                let n: usize = n.parse().ok()?;
                let c: usize = a.get(2).and_then(|x| x.parse().ok()).unwrap_or(0);
                let runner = config(8192, (n + c).max(1)).async_runner();
                let w = futures_util::task::noop_waker(); let mut cx = Context::from_waker(&w);
                let mut toks = vec![];
                for _ in 0..n { let f = runner.get_token(); futures_util::pin_mut!(f); match f.poll(&mut cx) { Poll::Ready(t) => toks.push(Some(t)), Poll::Pending => return Some("get_token-pending".into()) } }
                // a clone of the runner with `c` live tokens of its own (only when asked for: `g.new n c` with a third argument)
                let clone_side = if a.len() == 3 { let cl = runner.clone(); let mut ct = vec![];
                    for _ in 0..c { let f = cl.get_token(); futures_util::pin_mut!(f); match f.poll(&mut cx) { Poll::Ready(t) => ct.push(t), Poll::Pending => return Some("get_token-pending".into()) } }
                    Some((cl, ct)) } else { None };
                let fut: Pin<Box<dyn Future<Output = ()>>> = Box::pin(runner.shutdown());
                self.k = KState { tokens: toks, shutdown: Some((fut, Arc::new(CountWaker(Default::default())))), cw2: Some(Arc::new(CountWaker(Default::default()))), clone_side, ..Default::default() };
                "ok".into()
            }
            ["g.poll"] | ["g.poll2"] => {
                let second = a[0] == "g.poll2";
                let cw2 = self.k.cw2.clone()?;
                let Some((fut, cw)) = self.k.shutdown.as_mut() else { return Some("no-future".into()) };
                let waker = std::task::Waker::from(if second { cw2.clone() } else { cw.clone() });
                let mut cx = Context::from_waker(&waker);
                let r = fut.as_mut().poll(&mut cx);
                let (wa, wb) = (cw.0.load(std::sync::atomic::Ordering::SeqCst), cw2.0.load(std::sync::atomic::Ordering::SeqCst));
                format!("{} wakes={} wb={wb}", if r.is_ready() { "ready" } else { "pending" }, wa + wb)
            }
            ["g.pollh", pt, t] => {
                let point: u8 = pt.parse().ok()?;
                let i: usize = t.parse().ok()?;
                if self.k.shutdown.is_none() { return Some("no-future".into()); }
                // the token to drop inside the poll, at the requested scheduling point
                let tok = match self.k.tokens.get_mut(i) { Some(slot @ Some(_)) => slot.take(), _ => return Some("no-token".into()) };
                let cell = Arc::new(Mutex::new(tok));
                let fired = Arc::new(std::sync::atomic::AtomicBool::new(false));
                let (c2, f2) = (cell.clone(), fired.clone());
                fastcgi_server::async_io::verif_hook::set(Some(Box::new(move |p| { if p == point { if let Some(t) = c2.lock().unwrap().take() { f2.store(true, std::sync::atomic::Ordering::SeqCst); drop(t); } } })));
                let (fut, cw) = self.k.shutdown.as_mut().unwrap();
                let waker = std::task::Waker::from(cw.clone());
                let mut cx = Context::from_waker(&waker);
                let r = fut.as_mut().poll(&mut cx);
                fastcgi_server::async_io::verif_hook::set(None);
                // hook not reached (future completed before the upgrade): the token was not dropped, put it back
                if let Some(t) = cell.lock().unwrap().take() { self.k.tokens[i] = Some(t); }
                let wb = self.k.cw2.as_ref().map_or(0, |c| c.0.load(std::sync::atomic::Ordering::SeqCst));
                let (_, cw) = self.k.shutdown.as_ref().unwrap();
                format!("{} wakes={} wb={wb} hook={}", if r.is_ready() { "ready" } else { "pending" }, cw.0.load(std::sync::atomic::Ordering::SeqCst) + wb, if fired.load(std::sync::atomic::Ordering::SeqCst) { "fired" } else { "not-reached" })
            }
            ["g.drop", t] | ["g.dropu", t] => {
                let i: usize = t.parse().ok()?;
                match self.k.tokens.get_mut(i) { Some(slot @ Some(_)) => { if a[0] == "g.dropu" { let tok = slot.take(); let _ = catch(move || -> () { let _held = tok; panic!("unwinding drop") }); } else { *slot = None; } } _ => return Some("no-token".into()) }
                let wb = self.k.cw2.as_ref().map_or(0, |c| c.0.load(std::sync::atomic::Ordering::SeqCst));
                let w = self.k.shutdown.as_ref().map_or(0, |(_, cw)| cw.0.load(std::sync::atomic::Ordering::SeqCst)) + wb;
                format!("ok wakes={w} wb={wb}")
            }
            ["t.run", rest @ ..] => crate::runloop::run_case(rest)?,
            _ => return None,
        })
    }
}

/// Generation-side convenience: execute on the real code and log op + observation.
pub fn run(log: &mut Log, im: &mut Impl, op: &str) -> String {
    let obs = im.exec(op);
    log.op(op, &obs);
    obs
}

/// The witness corpora `corpus/<prefix>*.txt` (histories behind refuted `_full` statements and model-vs-code audits that proof agents
/// replayed by hand): executed first on every run so that the correspondence check keeps comparing them with the model.
pub fn witness_corpus(prefixes: &[&str], log: &mut Log, im: &mut Impl, or: &mut Oracle) {
    let dir = std::path::Path::new(env!("CARGO_MANIFEST_DIR")).join("../corpus");
    let Ok(rd) = std::fs::read_dir(&dir) else { return };
    let mut files: Vec<_> = rd.filter_map(|e| e.ok()).map(|e| e.path()).filter(|p| p.file_name().and_then(|n| n.to_str()).map_or(false, |n| n.ends_with(".txt") && prefixes.iter().any(|pre| n.starts_with(pre)))).collect();
    files.sort();
    for f in files {
        let Ok(text) = std::fs::read_to_string(&f) else { continue };
        for line in text.lines() {
            if let Some(id) = line.strip_prefix("# case ") { log.case(&format!("witness-{id}")); }
            else if !line.starts_with('#') && !line.trim().is_empty() { let o = run(log, im, line); if o == "panic" || o.starts_with("panic ") { or.count("witness_corpus_panics_observed"); } or.count("witness_corpus_ops"); }
        }
    }
}

/// Replay mode: re-execute an op block from a file, writing ops.txt / impl.txt.
pub fn replay(ctx: &Ctx, path: &std::path::Path) {
    let text = std::fs::read_to_string(path).expect("replay file");
    let mut log = Log::new(&ctx.dir);
    let mut im = Impl::new();
    for line in text.lines() {
        if line.trim().is_empty() { continue; }
        if line.starts_with("# case") { im = Impl::new(); }
        let obs = im.exec(line);
        log.op(line, &obs);
    }
    log.finish();
}
