//! Interpreter of the line protocol on the REAL crate.  Mirrors `lean/Driver/Main.lean`:
//! one op line in, one observation line out.  Used for generated cases and for replays.
use crate::util::*;
use fastcgi_server::protocol as fcgi;
use fcgi::varint::VarInt;
use std::io::ErrorKind;

#[derive(Default)]
pub struct Impl {
    pub _unused: (),
}

fn pairs_str(ps: &[(Vec<u8>, Vec<u8>)]) -> String {
    if ps.is_empty() { "-".into() } else { ps.iter().map(|(n, v)| format!("{}:{}", hexd(n), hexd(v))).collect::<Vec<_>>().join(",") }
}

impl Impl {
    pub fn new() -> Self { Self::default() }

    /// Executes one op; a panic inside the crate is an observation (`panic <msg>`).
    pub fn exec(&mut self, line: &str) -> String {
        if line.starts_with('#') { return line.to_string(); }
        let a: Vec<&str> = line.split(' ').filter(|s| !s.is_empty()).collect();
        match catch(|| self.exec_inner(&a)) {
            Ok(Some(s)) => s,
            Ok(None) => "bad-op".into(),
            Err(p) => format!("panic {}", p.replace('\n', " ")),
        }
    }

    fn exec_inner(&mut self, a: &[&str]) -> Option<String> {
        Some(match a {
            ["vi.dec", h] => {
                let bs = unhex(h);
                let mut cur = &bs[..];
                match VarInt::read(&mut cur) {
                    Ok(v) => format!("ok {} {}", u32::from(v), cur.len()),
                    Err(e) if e.kind() == ErrorKind::UnexpectedEof => "eof".into(),
                    Err(e) => format!("err-other {:?}", e.kind()),
                }
            }
            ["vi.enc", n] => {
                let v: u32 = n.parse().ok()?;
                match VarInt::try_from(v) {
                    Ok(vi) => {
                        let mut out = Vec::new();
                        match vi.write(&mut out) {
                            Ok(k) if k == out.len() => hex(&out),
                            Ok(k) => format!("count-mismatch {k} {}", hex(&out)),
                            Err(e) => format!("err {:?}", e.kind()),
                        }
                    }
                    Err(_) => "not-a-varint".into(),
                }
            }
            ["vi.u32", n] => {
                let x: u64 = n.parse().ok()?;
                match VarInt::try_from(x as u32) { Ok(v) => format!("ok {}", u32::from(v)), Err(_) => "err".into() }
            }
            ["vi.usize", n] => {
                let x: u64 = n.parse().ok()?;
                match VarInt::try_from(x as usize) { Ok(v) => format!("ok {}", u32::from(v)), Err(_) => "err".into() }
            }
            ["nv.all", h] => {
                // both instantiations of the generic iterator must agree with each other and the model
                let bs = unhex(h);
                let mut it = fcgi::nv::NVIter::new(&bs[..]);
                let hint = it.size_hint().1.unwrap_or(usize::MAX);
                let mut ps: Vec<(Vec<u8>, Vec<u8>)> = vec![];
                let base = bs.as_ptr() as usize;
                let mut contiguous = true;
                let mut pos_end = 0usize;
                for (n, v) in &mut it {
                    // zero-copy: sub-slices of the input, name immediately followed by value
                    let ns = n.as_ptr() as usize - base; let vs = v.as_ptr() as usize - base;
                    if ns < pos_end || vs != ns + n.len() { contiguous = false; }
                    pos_end = vs + v.len();
                    ps.push((n.to_vec(), v.to_vec()));
                }
                let fused = it.next().is_none() && it.next().is_none();
                let rest = it.into_inner();
                let rest_is_suffix = rest.as_ptr() as usize + rest.len() == base + bs.len();
                let mut copy = bs.clone();
                let mut itm = fcgi::nv::NVIter::new(&mut copy[..]);
                let psm: Vec<(Vec<u8>, Vec<u8>)> = (&mut itm).map(|(n, v)| (n.to_vec(), v.to_vec())).collect();
                let restm = itm.into_inner().len();
                let agree = psm == ps && restm == rest.len();
                let mut s = format!("{} {} rest={} hint={} guards=true", ps.len(), pairs_str(&ps), rest.len(), hint);
                if !(contiguous && fused && rest_is_suffix && agree) {
                    s.push_str(&format!(" ANOMALY contiguous={contiguous} fused={fused} suffix={rest_is_suffix} mut_agrees={agree}"));
                }
                s
            }
            ["nv.next", h] => {
                let bs = unhex(h);
                let mut it = fcgi::nv::NVIter::new(&bs[..]);
                match it.next() {
                    Some((n, v)) => format!("some {} {} rest={}", hexd(n), hexd(v), it.into_inner().len()),
                    None => { let r = it.into_inner(); if r.len() == bs.len() { "none".into() } else { format!("none-but-consumed {}", bs.len() - r.len()) } }
                }
            }
            ["nv.write", cap, n, v] => {
                let nb = unhex(n); let vb = unhex(v);
                let (res, out): (std::io::Result<usize>, Vec<u8>) = if *cap == "vec" {
                    let mut o = Vec::new();
                    let r = fcgi::nv::write((&nb, &vb), &mut o);
                    (r, o)
                } else {
                    let c: usize = cap.parse().ok()?;
                    let mut buf = vec![0u8; c];
                    let mut w = &mut buf[..];
                    let r = fcgi::nv::write((&nb, &vb), &mut w);
                    let left = w.len();
                    buf.truncate(c - left);
                    (r, buf)
                };
                let rs = match res {
                    Ok(k) => format!("ok {k}"),
                    Err(e) if e.kind() == ErrorKind::InvalidInput => "err invalid-input".into(),
                    Err(e) if e.kind() == ErrorKind::WriteZero => "err write-zero".into(),
                    Err(e) => format!("err other {:?}", e.kind()),
                };
                format!("{rs} out={}", hexd(&out))
            }
            _ => return None,
        })
    }
}

/// Generation-side convenience: execute on the real code and log op + observation.
pub fn run(log: &mut Log, im: &mut Impl, op: &str) -> String {
    let obs = im.exec(op);
    log.op(op, &obs);
    obs
}

/// Replay mode: re-execute an op block from a file, writing ops.txt / impl.txt.
pub fn replay(ctx: &Ctx, path: &std::path::Path) {
    let text = std::fs::read_to_string(path).expect("replay file");
    let mut log = Log::new(&ctx.dir);
    let mut im = Impl::new();
    for line in text.lines() {
        if line.trim().is_empty() { continue; }
        if line.starts_with("# case") { im = Impl::new(); }
        let obs = im.exec(line);
        log.op(line, &obs);
    }
    log.finish();
}
