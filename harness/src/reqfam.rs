//! Request-parser family: C01 (preamble exactness), C06 (buffer bound), and the request-parser halves of
//! C03 (totality / chunk invariance) and C04 (replies).
use crate::exec::{run as ex, Impl};
use crate::gen::*;
use crate::util::*;

pub struct FeedOut { pub out: Vec<u8>, pub done: bool, pub fed: usize, pub panicked: bool, pub calls: usize, pub starved: bool }

fn field<'a>(obs: &'a str, key: &str) -> Option<&'a str> {
    obs.split(' ').find_map(|t| t.strip_prefix(key).and_then(|r| r.strip_prefix('=')))
}

/// Feeds `wire` into the current request parser until it reports done (or the wire ends).
/// Also enforces C06's second clause on every call: not done ⇒ input buffer non-empty.
pub fn feed_req(log: &mut Log, im: &mut Impl, or: &mut Oracle, wire: &[u8], ch: &Chunking, rng: &mut Rng, mut free: usize, prop: &str) -> FeedOut {
    let mut pos = 0; let mut out = vec![]; let mut done = false; let mut calls = 0; let mut starved = false;
    while pos < wire.len() && !done {
        if free == 0 { starved = true; break; }
        let n = ch.next(rng, pos, wire.len() - pos, free);
        let o = ex(log, im, &format!("req.feed {}", hexd(&wire[pos..pos + n])));
        calls += 1;
        if o == "panic" { return FeedOut { out, done: false, fed: pos + n, panicked: true, calls, starved }; }
        pos += n;
        done = field(&o, "done") == Some("true");
        out.extend(unhex(field(&o, "out").unwrap_or("-")));
        free = field(&o, "free").and_then(|x| x.parse().ok()).unwrap_or(0);
        if !done && free == 0 {
            or.fail("request parser is not done but offers an empty input buffer (would wait forever)".into(), log.replay_block(), format!("{prop}:empty-buffer-not-done"));
        }
    }
    FeedOut { out, done, fed: pos, panicked: false, calls, starved }
}

fn new_parser(log: &mut Log, im: &mut Impl, b: usize, mc: usize) -> usize {
    let o = ex(log, im, &format!("req.new {b} {mc}"));
    field(&o, "free").and_then(|x| x.parse().ok()).unwrap_or(0)
}

fn gen_preamble(rng: &mut Rng, big: bool) -> Preamble {
    Preamble { id: rng.range(1, 65535) as u16, role: rng.range(1, 3) as u16, flags: match rng.below(4) { 0 => 0, 1 => 1, _ => rng.next() as u8 }, pairs: gen_pairs(rng, big) }
}
fn longest(pre: &Preamble) -> usize { pre.pairs.iter().map(|(n, v)| n.len() + v.len()).max().unwrap_or(0) }
fn pick_bufsize(rng: &mut Rng, l: usize) -> usize {
    let min = l + 13;
    match rng.below(8) { 0 | 1 => min, 2 => min + rng.usize_below(9), 3 => min + rng.usize_below(64), 4 => min.max(8192), 5 => min.max(64), 6 => min.max(70_000), _ => min.max(24 + rng.usize_below(200)) }
}

fn expected_line(pre: &Preamble, left: &[u8]) -> String {
    format!("ok id={} role={} flags={} env={} acc=ok left={}", pre.id, pre.role, pre.flags, env_fmt(&spec_env(&pre.pairs)), hexd(left))
}

fn chunkings_for(rng: &mut Rng, wire_len: usize, exhaustive_cuts: bool, n_random: usize) -> Vec<Chunking> {
    let mut v = vec![Chunking::All, Chunking::One, Chunking::Fill];
    if exhaustive_cuts { for c in 1..wire_len { v.push(Chunking::Cut(c)); } }
    for _ in 0..n_random { v.push(Chunking::pick(rng, wire_len)); }
    v
}

// =====================================================================================================  C01
pub fn run_c01(ctx: &mut Ctx) {
    let mut log = Log::new(&ctx.dir);
    let mut im = Impl::new();
    let mut or = Oracle::new("C01",
        "well-formed preambles: ids 1..65535, 3 roles, any flag byte; pair lists with lengths from {0,1,2,126,127,128,129,255,256,65534,65535,65536,70000} and small random lengths, duplicate / case-variant / non-UTF-8 / empty names; \
         Params payload cut at every kind of offset (inside length prefixes, pair boundaries, 1..4-byte records, >65535-byte pairs over several records); padding 0..255 with non-zero filler; noise records (GetValues, unknown types, foreign-id and stale records) at every position; \
         buffer sizes from longest+13 upward; chunkings: all-at-once, 1-byte, buffer-filling, every single cut (thorough: all wires <= 400 B and every 8th up to 600 B; quick: every 8th wire <= 600 B), random. Expectation known by construction (independent lossy/uppercase/last-wins reference). \
         Non-trivial: >= 1 pair or >= 1 noise record; distinct by (wire, buffer size, chunking)");
    let mut rng = ctx.rng.fork();
    let ncases = ctx.n(260, 700);
    let thorough = ctx.tier_thorough || ctx.widen;
    for ci in 0..ncases {
        let big = ci % 37 == 5;
        let pre = gen_preamble(&mut rng, big);
        let l = longest(&pre);
        let b = pick_bufsize(&mut rng, l);
        let mc = 1 + rng.usize_below(300);
        let nl = rng.below(7);
        let built = build_preamble(&mut rng, &pre, nl, mc, (b - 13).min(40));
        let pre_wire = ser_all(&built.recs);
        let mut wire = pre_wire.clone();
        let extra = match rng.below(4) { 0 => vec![], 1 => rng.bytes(1 + rng.clone().usize_below(30)), _ => ser_all(&[Rec::new(T_STDIN, pre.id, rng.bytes(rng.clone().usize_below(20)), vec![])]) };
        wire.extend(&extra);
        let small = wire.len() <= 600;
        let exhaustive = small && ((thorough && wire.len() <= 400) || ci % 8 == 0);
        let chs = if wire.len() > 20_000 { vec![Chunking::All, Chunking::Fill, Chunking::Random(1), Chunking::Fixed(4093)] } else { chunkings_for(&mut rng, wire.len(), exhaustive, if small { 3 } else { 1 }) };
        or.count(if big { "cases_with_pair_over_65535" } else { "cases_small" });
        or.count(&format!("noise_records={}", (built.recs.len() - 2).min(9)));
        for (k, ch) in chs.iter().enumerate() {
            if wire.len() > 3000 && matches!(ch, Chunking::One) { continue; }
            log.case(&format!("c01-{ci}-{k}"));
            let free = new_parser(&mut log, &mut im, b, mc);
            let f = feed_req(&mut log, &mut im, &mut or, &wire, ch, &mut rng, free, "C01");
            let res = ex(&mut log, &mut im, "req.into_request");
            let left: &[u8] = if f.fed >= pre_wire.len() { &wire[pre_wire.len()..f.fed] } else { &[] };
            let exp = expected_line(&pre, left);
            if f.panicked || !f.done || res != exp {
                or.fail(format!("preamble (id {}, {} pairs, longest {l}, {} records, buffer {b}) under chunking {ch:?}: parser returned `{}`, sent request is `{}`{}",
                    pre.id, pre.pairs.len(), built.recs.len(), &res[..res.len().min(160)], &exp[..exp.len().min(160)], if f.panicked { " (panicked)" } else if !f.done { " (not done after all bytes)" } else { "" }),
                    log.replay_block(), format!("C01:{}", if f.panicked { "panic" } else if !f.done { "not-done" } else if res.starts_with("err") { "error" } else { "wrong-request" }));
            }
            or.eval((&wire, b, k), !pre.pairs.is_empty() || built.recs.len() > 2);
            if ci == 1 && k == 0 { or.sample(format!("buffer {b}, wire {} bytes, {} records, result {}", wire.len(), built.recs.len(), &res[..res.len().min(120)])); }
        }
    }
    or.count_n("corr_ops", log.nops);
    log.finish();
    or.write(&ctx.dir);
}

// =====================================================================================================  C06
pub fn run_c06(ctx: &mut Ctx) {
    let mut log = Log::new(&ctx.dir);
    let mut im = Impl::new();
    let mut or = Oracle::new("C06",
        "buffer_size 0..4096 exhaustively + residues around powers of two + random to 1 MiB for the effective size; critical pairs of size B-13 (bound), B-12..B-8 (inside the true limit) and B-7 (beyond, informational) placed at the start / middle / end of a record and across records, \
         under buffer-filling, 1-byte, single-cut and random chunkings; after every parse call `not done => non-empty input buffer`. Non-trivial: all pair cases; distinct by (B, pair size, position, chunking)");
    crate::exec::witness_corpus(&["C06_"], &mut log, &mut im, &mut or);
    let mut rng = ctx.rng.fork();
    log.case("flat-aligned");
    let mut sizes: Vec<usize> = (0..=4096).collect();
    for k in 12..=20 { for d in 0..16 { sizes.push((1usize << k) - 8 + d); } }
    for _ in 0..ctx.n(300, 5000) { sizes.push(rng.usize_below(1 << 20)); }
    sizes.push(8192); sizes.push(1 << 20);
    for &b in &sizes {
        let o = ex(&mut log, &mut im, &format!("cfg.aligned {b}"));
        let e: usize = o.parse().unwrap_or(0);
        if !(e >= b && e >= 24 && e % 8 == 0 && (e < b + 8 || e == 24)) {
            or.fail(format!("buffer_size {b} gives an effective buffer of {o} bytes (must be >= configured, >= 24, a multiple of 8 and the smallest such)"), format!("# case flat-oracle\ncfg.aligned {b}"), format!("C06:aligned:{b}"));
        }
        or.eval(("aligned", b), true);
    }
    or.exhaustive.push("buffer_size 0..=4096".into());
    // the same effective size for the OTHER public constructor: stream::Parser::new(config, request) on a request extracted by into_request()
    log.case("flat-stream-new");
    let pre_min = ser_all(&[begin(1, 1, 0, vec![]), Rec::new(T_PARAMS, 1, vec![], vec![])]);
    for &b in sizes.iter().filter(|&&b| b <= 70 || b % 97 == 0 || (b & (b.wrapping_sub(1))) == 0).chain([8191usize, 8192, 8193, 65535, 65536].iter()) {
        let e = { let o = ex(&mut log, &mut im, &format!("cfg.aligned {b}")); o.parse::<usize>().unwrap_or(0) };
        ex(&mut log, &mut im, "req.new 64 1");
        ex(&mut log, &mut im, &format!("req.feed {}", hexd(&pre_min)));
        let o = ex(&mut log, &mut im, &format!("req.to_stream_new {b} 1"));
        let free: usize = crate::runfam::field(&o, "free").and_then(|x| x.parse().ok()).unwrap_or(usize::MAX);
        if free != e { or.fail(format!("stream::Parser::new with buffer_size {b}: input buffer of {free} bytes, the effective size is {e}"), log.replay_block(), format!("C06:stream-new:{b}")); }
        or.eval(("stream-new", b), true);
    }
    // critical pairs
    let ncases = ctx.n(120, 2500);
    let mut stuck_at = std::collections::BTreeMap::<i64, (u64, u64)>::new();
    for ci in 0..ncases {
        let b: usize = match rng.below(5) { 0 => 24, 1 => 32, 2 => 8 * rng.range(3, 40) as usize, 3 => 24 + rng.usize_below(300), _ => 8 * rng.range(40, 1100) as usize };
        let eff = (b.max(24) + 7) / 8 * 8;
        let delta: i64 = match rng.below(10) { 0..=3 => 13, 4 => 12, 5 => 11, 6 => 10, 7 => 9, 8 => 8, _ => 7 };
        let size = eff as i64 - delta;
        if size < 0 { continue; }
        let size = size as usize;
        let within_bound = size + 13 <= b;   // the documented bound is relative to the *configured* size
        let nl = rng.usize_below(size + 1);
        let crit = (gen_name(&mut rng, nl), rng.bytes(size - nl));
        let small_max = size.min(20);
        let mut pairs: Vec<(Vec<u8>, Vec<u8>)> = vec![];
        let before = rng.usize_below(4); let after = rng.usize_below(4);
        for _ in 0..before { let l = rng.usize_below(small_max + 1); pairs.push((gen_name(&mut rng, l / 2), rng.bytes(l - l / 2))); }
        let crit_idx = pairs.len();
        pairs.push(crit.clone());
        for _ in 0..after { let l = rng.usize_below(small_max + 1); pairs.push((gen_name(&mut rng, l / 2), rng.bytes(l - l / 2))); }
        let pre = Preamble { id: rng.range(1, 65535) as u16, role: 1, flags: 1, pairs };
        // explicit segmentation: position of the critical pair relative to record boundaries
        let mut payload = vec![]; let mut starts = vec![];
        for (n, v) in &pre.pairs { starts.push(payload.len()); payload.extend(nv_enc(n, v)); }
        let cs = starts[crit_idx]; let ce = cs + nv_enc(&crit.0, &crit.1).len();
        let mut cuts: Vec<usize> = match rng.below(5) {
            0 => vec![cs],                       // critical pair at the start of a record
            1 => vec![ce],                       // at the end
            2 => vec![],                         // middle of one record
            3 => vec![cs + 1 + rng.usize_below(ce - cs - 1)],   // across two records
            _ => { let a = cs + 1 + rng.usize_below(ce - cs - 1); vec![cs.saturating_sub(rng.usize_below(3)), a, (a + 1 + rng.usize_below(5)).min(payload.len())] }  // across three
        };
        cuts.retain(|&c| c > 0 && c < payload.len()); cuts.sort(); cuts.dedup();
        let mut recs = vec![begin(pre.id, 1, 1, pad_bytes(&mut rng))];
        let mut s = 0; cuts.push(payload.len());
        for c in cuts { let mut a = s; while c - a > 65535 { recs.push(Rec::new(T_PARAMS, pre.id, payload[a..a + 65535].to_vec(), vec![])); a += 65535; } if c > a { recs.push(Rec::new(T_PARAMS, pre.id, payload[a..c].to_vec(), pad_bytes(&mut rng))); } s = c; }
        recs.push(Rec::new(T_PARAMS, pre.id, vec![], vec![]));
        // a GetValues query among the preamble's records (before BeginRequest or between Params records) whose BODY may be far
        // longer than the buffer while each of its pairs is small: complete pairs are released as they are parsed, so the
        // bound on pair size is all that matters
        let mut gv_len = 0usize;
        if rng.chance(1, 2) {
            let pmax = size.min(19).max(1);
            let target = 1 + rng.usize_below((3 * eff).min(60_000));
            let mut body = vec![];
            while body.len() < target {
                let known: &[&[u8]] = &[b"FCGI_MAX_CONNS", b"FCGI_MAX_REQS", b"FCGI_MPXS_CONNS"];
                let (n, v): (Vec<u8>, Vec<u8>) = if pmax >= 15 && rng.chance(1, 3) { (rng.pick(known).to_vec(), vec![]) } else { let l = rng.usize_below(pmax + 1); (gen_name(&mut rng, l.min(1 + l / 2)), rng.bytes(l - l.min(1 + l / 2))) };
                let e = nv_enc(&n, &v);
                if body.len() + e.len() > 65535 { break; }
                body.extend(e);
            }
            gv_len = body.len();
            let at = rng.usize_below(recs.len());   // 0 = before BeginRequest; never after the final empty Params record
            recs.insert(at, Rec::new(T_GETVALUES, 0, body, pad_bytes(&mut rng)));
        }
        let wire = ser_all(&recs);
        or.count(if gv_len == 0 { "getvalues=none" } else if gv_len > eff { "getvalues=longer-than-buffer" } else { "getvalues=fits" });
        let chs = [Chunking::Fill, Chunking::One, Chunking::All, Chunking::Cut(rng.usize_below(wire.len())), Chunking::Random(0), Chunking::Fixed(eff - 1), Chunking::Fixed(1 + rng.usize_below(eff))];
        for (k, ch) in chs.iter().enumerate() {
            if wire.len() > 2500 && matches!(ch, Chunking::One) { continue; }
            log.case(&format!("c06-{ci}-{k}"));
            let free = new_parser(&mut log, &mut im, b, 1);
            let f = feed_req(&mut log, &mut im, &mut or, &wire, ch, &mut rng, free, "C06");
            let res = ex(&mut log, &mut im, "req.into_request");
            let stuck = res == "err stuck";
            let e = stuck_at.entry(delta).or_insert((0, 0)); e.0 += 1; if stuck { e.1 += 1; }
            if within_bound {
                let exp = expected_line(&pre, &[]);
                if res != exp {
                    or.fail(format!("buffer_size {b} (effective {eff}), critical pair of {size} bytes <= B-13, chunking {ch:?}: `{}` instead of the request{}", &res[..res.len().min(100)], if stuck { " — StuckOnInput although the documented bound is met" } else { "" }),
                        log.replay_block(), format!("C06:{}", if stuck { "stuck-within-bound" } else { "wrong-result" }));
                }
            } else if !stuck && !f.panicked {
                // beyond the documented bound: either parses correctly or reports StuckOnInput; anything else is wrong
                let exp = expected_line(&pre, &[]);
                if res != exp { or.fail(format!("pair beyond the bound: result `{}` is neither the request nor StuckOnInput", &res[..res.len().min(100)]), log.replay_block(), "C06:beyond-bound-garbage".into()); }
            }
            or.eval((b, size, ci, k), true);
        }
        if ci == 0 { or.sample(format!("B={b} effective={eff} critical pair {size} bytes (B_eff-{delta}), {} records, wire {} bytes", recs.len(), wire.len())); }
    }
    for (d, (n, s)) in &stuck_at { or.count_n(&format!("pair=Beff-{d}:runs"), *n); or.count_n(&format!("pair=Beff-{d}:stuck"), *s); }
    or.notes.push("informational: the true tight limit explored — see distribution pair=Beff-K:stuck (K=8 is the last size that never sticks, K=7 can)".into());
    or.count_n("corr_ops", log.nops);
    log.finish();
    or.write(&ctx.dir);
}

// =====================================================================================================  C04 (request parser half)
pub fn c04_req(ctx: &mut Ctx, log: &mut Log, im: &mut Impl, or: &mut Oracle) {
    let mut rng = ctx.rng.fork();
    let thorough = ctx.tier_thorough || ctx.widen;
    for ci in 0..ctx.n(160, 3000) {
        if or.saturated() { or.count("stopped_early_saturated"); break; }
        let mc = 1 + rng.usize_below(100_000);
        let b = *rng.pick(&[64usize, 128, 256, 8192]);
        // optionally: a first request aborted during Params, then the real one
        let mut recs: Vec<Rec> = vec![]; let mut exp: Vec<u8> = vec![];
        if rng.chance(1, 4) {
            let aid = rng.range(1, 65535) as u16;
            let apre = Preamble { id: aid, role: rng.range(1, 3) as u16, flags: rng.next() as u8, pairs: gen_pairs(&mut rng, false).into_iter().filter(|(n, v)| n.len() + v.len() <= 40).collect() };
            let built = build_preamble(&mut rng, &apre, 3, mc, 40);
            // drop the terminating empty Params (and maybe some tail), abort instead
            let keep = 1 + rng.usize_below(built.recs.len() - 1);
            let kept: Vec<Rec> = built.recs[..keep].to_vec();
            // recompute owed replies for the kept prefix only
            let mut phase = Phase::Idle;
            for r in &kept { if r.rtype == T_BEGIN && r.id == aid && phase == Phase::Idle && r.content.len() == 8 && (1..=3).contains(&u16::from_be_bytes([r.content[0], r.content[1]])) { phase = Phase::Active(aid); continue; }
                               if r.rtype == T_PARAMS && Phase::Active(r.id) == phase { continue; }
                               exp.extend(spec_owed(phase, r, mc)); }
            recs.extend(kept);
            if phase == Phase::Active(aid) {
                recs.push(Rec::new(T_ABORT, aid, rng.bytes(rng.clone().usize_below(20)), pad_bytes(&mut rng)));
                exp.extend(spec_end_request(aid, 0, 0));
                or.count("abort_during_params");
            }
        }
        let pre = Preamble { pairs: gen_pairs(&mut rng, false).into_iter().filter(|(n, v)| n.len() + v.len() <= 40).collect(), ..gen_preamble(&mut rng, false) };
        let nl = 2 + rng.below(7);
        let built = build_preamble(&mut rng, &pre, nl, mc, 40);
        recs.extend(built.recs.clone()); exp.extend(&built.expected_out);
        let wire = ser_all(&recs);
        let small = wire.len() <= 500;
        let chs = chunkings_for(&mut rng, wire.len(), small && (thorough || ci % 6 == 0), 2);
        for r in &recs { if r.rtype == T_GETVALUES && r.id == 0 && !r.content.is_empty() { or.count("getvalues_queries"); } else if !(1..=11).contains(&r.rtype) { or.count("unknown_type_records"); } else if r.rtype == T_BEGIN && r.id != pre.id { or.count("foreign_or_rejected_begin"); } }
        for (k, ch) in chs.iter().enumerate() {
            log.case(&format!("c04r-{ci}-{k}"));
            let free = new_parser(log, im, b, mc);
            let f = feed_req(log, im, or, &wire, ch, &mut rng, free, "C04");
            // every other chunking converts into the STREAM parser instead: the replies were all handed out through parse()'s output, so
            // the stream parser must start with an empty output buffer (nothing is emitted a second time after the hand-off)
            let res = if k % 2 == 1 {
                let r0 = ex(log, im, "req.peek");
                let o = ex(log, im, "req.into_stream");
                if o.starts_with("ok ") && field(&o, "outbuf") != Some("-") { or.fail(format!("into_stream_parser handed over a non-empty output buffer ({}): replies already emitted would be sent again", field(&o, "outbuf").unwrap_or("?").chars().take(40).collect::<String>()), log.replay_block(), "C04:handover-output".into()); }
                if o.starts_with("panic") { or.fail("into_stream_parser panicked on a finished request parser".into(), log.replay_block(), "C04:handover-panic".into()); }
                or.count("conversions_into_stream_parser");
                r0
            } else { ex(log, im, "req.into_request") };
            if f.out != exp {
                let d = f.out.iter().zip(exp.iter()).position(|(a, b)| a != b).unwrap_or(f.out.len().min(exp.len()));
                or.fail(format!("request parser emitted {} reply bytes, the specification prescribes {} (first difference at byte {d}); chunking {ch:?}; emitted {}… expected {}…", f.out.len(), exp.len(), hexd(&f.out[d.saturating_sub(8)..f.out.len().min(d + 24)]), hexd(&exp[d.saturating_sub(8)..exp.len().min(d + 24)])),
                    log.replay_block(), "C04:req-replies".into());
            }
            if !res.starts_with(&format!("ok id={} ", pre.id)) { or.fail(format!("noise-laden preamble did not parse: {}", &res[..res.len().min(80)]), log.replay_block(), "C04:req-result".into()); }
            or.eval((&wire, k), !exp.is_empty());
        }
        if ci == 0 { or.sample(format!("{} records, {} reply bytes owed: {}…", recs.len(), exp.len(), hexd(&exp[..exp.len().min(32)]))); }
    }
}

// =====================================================================================================  C03 (request parser half)
pub fn mutate(rng: &mut Rng, wire: &mut Vec<u8>, recs: &[Rec]) -> &'static str {
    // offsets of record headers
    let mut offs = vec![]; let mut p = 0; for r in recs { offs.push(p); p += r.ser().len(); }
    if wire.is_empty() { return "empty"; }
    offs.retain(|&o| o + 16 <= wire.len());
    let sel = if offs.is_empty() { *rng.pick(&[3u64, 4, 9, 10, 11]) } else { rng.below(12) };
    match sel {
        0 => { let o = *rng.pick(&offs); let rb = rng.next() as u8; wire[o] = *rng.pick(&[0u8, 2, 0xff, rb]); "version-flip" }
        1 => { let o = *rng.pick(&offs); wire[o + 1] = rng.next() as u8; "type-flip" }
        2 => { let o = *rng.pick(&offs); let k = 4 + rng.usize_below(3); wire[o + k] = rng.next() as u8; "length-flip" }
        3 => { let c = rng.usize_below(wire.len()); wire.truncate(c); "truncate" }
        4 => { let k = rng.usize_below(wire.len()); wire[k] ^= 1 << rng.below(8); "bit-flip" }
        5 => { // a length prefix announcing a huge pair inside the first Params record
            if let Some((i, _)) = recs.iter().enumerate().find(|(i, r)| r.rtype == T_PARAMS && r.content.len() >= 8 && *i < offs.len()) { let o = offs[i] + 8; wire[o] = 0xff; wire[o + 1] = 0xff; wire[o + 2] = 0xff; wire[o + 3] = 0xff;
                // half of the time BOTH prefixes are near 2^31: their sum plus the header bytes passes 2^32
                if rng.chance(1, 2) { for k in 4..8 { wire[o + k] = 0xff; } wire[o + 7] = *rng.pick(&[0xffu8, 0xf9, 0xf8, 0xf0]); } } "huge-length-prefix" }
        6 => { if let Some((i, _)) = recs.iter().enumerate().find(|(i, r)| r.rtype == T_BEGIN && *i < offs.len()) { wire[offs[i] + 5] = *rng.pick(&[0u8, 7, 9, 16]); } "begin-wrong-length" }
        7 => { if let Some((i, _)) = recs.iter().enumerate().find(|(i, r)| r.rtype == T_BEGIN && *i < offs.len()) { wire[offs[i] + 2] = 0; wire[offs[i] + 3] = 0; } "begin-id-0" }
        8 => { if let Some((i, _)) = recs.iter().enumerate().find(|(i, r)| r.rtype == T_BEGIN && *i < offs.len()) { wire[offs[i] + 8] = rng.next() as u8; wire[offs[i] + 9] = rng.next() as u8; } "begin-unknown-role" }
        9 => { let k = rng.usize_below(wire.len()); let n = rng.usize_below(30); let ins = rng.bytes(n); wire.splice(k..k, ins); "insert-garbage" }
        10 => { let k = rng.usize_below(wire.len()); let n = rng.usize_below((wire.len() - k).min(20)); wire.drain(k..k + n); "delete-bytes" }
        _ => { *wire = rng.bytes(wire.len().min(200)); "random-bytes" }
    }
}

pub fn c03_req(ctx: &mut Ctx, log: &mut Log, im: &mut Impl, or: &mut Oracle) {
    let mut rng = ctx.rng.fork();
    for ci in 0..ctx.n(500, 12_000) {
        if or.saturated() { or.count("stopped_early_saturated"); break; }
        let pre = Preamble { pairs: gen_pairs(&mut rng, false).into_iter().filter(|(n, v)| n.len() + v.len() <= 300).collect(), ..gen_preamble(&mut rng, false) };
        let mc = 1 + rng.usize_below(50);
        let nl = rng.below(6);
        let built = build_preamble(&mut rng, &pre, nl, mc, 40);
        // a record the parser has to SKIP whose content and padding together reach or exceed 2^16 (two u8/u16 fields that do not
        // fit a u16 when added): unknown type, a stray stream record, a foreign BeginRequest — before or among the preamble's records
        let big_skip = ci % 40 == 5;
        let mut all_recs = built.recs.clone();
        if big_skip {
            let (l, pd) = *rng.pick(&[(65535usize, 1usize), (65535, 255), (65529, 7), (65281, 255), (65535, 0), (65280, 255), (65534, 2)]);
            let (t, id) = *rng.pick(&[(200u8, 0u16), (200, 77), (T_STDIN, 9), (T_DATA, pre.id), (T_BEGIN, pre.id ^ 1 | 0x100), (T_GETVALUESRESULT, 0)]);
            let at = rng.usize_below(all_recs.len());
            all_recs.insert(at, Rec::new(t, id, rng.bytes(l), vec![0u8; pd]));
            or.count("big_skip_records");
        }
        let mut wire = ser_all(&all_recs);
        wire.extend(rng.bytes(rng.clone().usize_below(12)));
        let kind = if big_skip { "big-skip" } else if ci % 9 == 0 { "valid" } else { mutate(&mut rng, &mut wire, &built.recs) };
        if ci % 5 == 0 { let _ = mutate(&mut rng, &mut wire, &[]); }
        or.count(&format!("mutation={kind}"));
        // big-skip cases also run with buffers beyond 2^16 ("10s to 100s of KiB" per the documentation), so that one parse() call sees
        // >= 65536 buffered bytes while a record is being skipped (a u16 narrowing of the chunk length shows only there)
        let b = if big_skip && ci % 80 == 5 { *rng.pick(&[66_000usize, 70_000, 131_072, 200_000]) } else { *rng.pick(&[24usize, 32, 40, 64, 128, 512, 8192]) };
        if b > 65_535 { or.count("big_skip_buffer_over_65535"); }
        let mut results: Vec<(String, Vec<u8>, Vec<u8>, String)> = vec![];   // (result, output, leftover+unfed, chunking)
        let chs = [Chunking::All, Chunking::One, Chunking::Fill, Chunking::pick(&mut rng, wire.len()), Chunking::Cut(rng.usize_below(wire.len().max(1)))];
        for (k, ch) in chs.iter().enumerate() {
            if wire.len() > 2000 && matches!(ch, Chunking::One) { continue; }
            log.case(&format!("c03r-{ci}-{k}"));
            let free = new_parser(log, im, b, mc);
            if k == 0 && ci % 4 == 0 { ex(log, im, "req.feed -"); ex(log, im, "req.peek"); }    // parse(0) on a fresh parser; conversion at a non-final state
            let f = feed_req(log, im, or, &wire, ch, &mut rng, free, "C03");
            if f.panicked { or.fail(format!("request parser panicked on {kind} input under {ch:?}"), log.replay_block(), "C03:req-panic".into()); continue; }
            if !f.done && ci % 3 == 0 { ex(log, im, "req.feed -"); }
            let res = ex(log, im, "req.peek");
            // calls after a final state: same result, no further output
            if f.done {
                let o1 = ex(log, im, "req.feed -");
                let r1 = ex(log, im, "req.peek");
                if !(o1.starts_with("done=true out=- ") && r1 == res) {
                    or.fail(format!("after done/fatal a further parse(0) returned `{o1}` / `{}` (first result `{}`)", &r1[..r1.len().min(60)], &res[..res.len().min(60)]), log.replay_block(), "C03:req-not-sticky".into());
                }
            }
            // the other conversion, at whatever state the parser is in (consumes it): Done => the stream parser, Fatal => that
            // error, anything else => Interrupted
            if k % 2 == 1 {
                let o = ex(log, im, "req.into_stream");
                let good = if !f.done { o == "err interrupted" } else if res.starts_with("ok ") { o.starts_with("ok ") } else { o == res };
                if !good { or.fail(format!("into_stream_parser at a {} state returned `{}` (into_request on a clone: `{}`)", if f.done { "final" } else { "non-final" }, &o[..o.len().min(60)], &res[..res.len().min(60)]), log.replay_block(), "C03:req-into-stream".into()); }
                or.count(if !f.done { "into_stream=non-final" } else if res.starts_with("ok ") { "into_stream=done" } else { "into_stream=fatal" });
            }
            let (core, left) = match res.find(" left=") { Some(i) => (res[..i].to_string(), unhex(&res[i + 6..])), None => (res.clone(), vec![]) };
            let mut rest = left; if res.starts_with("ok") { rest.extend(&wire[f.fed..]); }
            results.push((if f.done { core } else { format!("not-done:{core}") }, f.out, rest, format!("{ch:?}")));
            or.eval((&wire, b, k), kind != "valid");
        }
        // chunk invariance of the final outcome
        for r in results.iter().skip(1) {
            let a = &results[0];
            if r.0 != a.0 || r.1 != a.1 || (a.0.starts_with("ok") && r.2 != a.2) {
                or.fail(format!("outcome depends on the chunking ({kind} input, buffer {b}): {} -> `{}` / {} output bytes / {} leftover; {} -> `{}` / {} output bytes / {} leftover",
                    a.3, &a.0[..a.0.len().min(70)], a.1.len(), a.2.len(), r.3, &r.0[..r.0.len().min(70)], r.1.len(), r.2.len()), log.replay_block(), "C03:req-chunk-dependent".into());
                break;
            }
        }
        if let Some(a) = results.first() { or.count(&format!("outcome={}", a.0.split(' ').take(2).collect::<Vec<_>>().join("-").chars().take(24).collect::<String>())); }
        if ci == 3 { or.sample(format!("{kind}: {}… -> {}", hexd(&wire[..wire.len().min(32)]), results.first().map(|r| r.0.clone()).unwrap_or_default().chars().take(90).collect::<String>())); }
    }
}
