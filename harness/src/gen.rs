//! Traffic generators following the repo's own wire types, and the independent (specification-side)
//! reference used by the oracles: serialisation, owed replies, expected environment.
use crate::util::*;

#[derive(Clone, Debug)]
pub struct Rec {
    pub version: u8,
    pub rtype: u8,
    pub id: u16,
    pub content: Vec<u8>,
    pub pad: Vec<u8>,
    /// declared content length (normally content.len(); differs only in malformed traffic)
    pub declared: Option<u16>,
}
impl Rec {
    pub fn new(rtype: u8, id: u16, content: Vec<u8>, pad: Vec<u8>) -> Self { Rec { version: 1, rtype, id, content, pad, declared: None } }
    pub fn ser(&self) -> Vec<u8> {
        let len = self.declared.unwrap_or(self.content.len() as u16);
        let mut o = vec![self.version, self.rtype, (self.id >> 8) as u8, self.id as u8, (len >> 8) as u8, len as u8, self.pad.len() as u8, 0];
        o.extend(&self.content);
        o.extend(&self.pad);
        o
    }
}
pub fn ser_all(rs: &[Rec]) -> Vec<u8> { rs.iter().flat_map(|r| r.ser()).collect() }

pub const T_BEGIN: u8 = 1; pub const T_ABORT: u8 = 2; pub const T_END: u8 = 3; pub const T_PARAMS: u8 = 4; pub const T_STDIN: u8 = 5;
pub const T_STDOUT: u8 = 6; pub const T_STDERR: u8 = 7; pub const T_DATA: u8 = 8; pub const T_GETVALUES: u8 = 9; pub const T_GETVALUESRESULT: u8 = 10; pub const T_UNKNOWN: u8 = 11;

pub fn nv_len(n: usize) -> Vec<u8> { if n < 128 { vec![n as u8] } else { let b = (n as u32).to_be_bytes(); vec![b[0] | 0x80, b[1], b[2], b[3]] } }
pub fn nv_enc(n: &[u8], v: &[u8]) -> Vec<u8> { let mut o = nv_len(n.len()); o.extend(nv_len(v.len())); o.extend(n); o.extend(v); o }

pub fn pad_bytes(rng: &mut Rng) -> Vec<u8> {
    let n = match rng.below(10) { 0..=3 => 0, 4..=5 => rng.usize_below(8), 6..=7 => rng.usize_below(40), 8 => 255, _ => rng.usize_below(256) };
    // non-zero filler: padding content must be ignored
    (0..n).map(|_| if rng.chance(1, 3) { 0 } else { rng.next() as u8 | 1 }).collect()
}

pub fn begin(id: u16, role: u16, flags: u8, pad: Vec<u8>) -> Rec {
    Rec::new(T_BEGIN, id, vec![(role >> 8) as u8, role as u8, flags, 0, 0, 0, 0, 0], pad)
}

// ------------------------------------------------------------------ specification side

/// Independent decoder of name-value pairs (specification: complete pairs only).
pub fn spec_nv_all(mut bs: &[u8]) -> Vec<(Vec<u8>, Vec<u8>)> {
    let mut out = vec![];
    loop {
        let mut p = 0usize;
        let mut lens = [0usize; 2];
        let mut ok = true;
        for l in lens.iter_mut() {
            if p >= bs.len() { ok = false; break; }
            if bs[p] < 128 { *l = bs[p] as usize; p += 1; }
            else { if p + 4 > bs.len() { ok = false; break; } *l = (((bs[p] & 0x7f) as usize) << 24) | ((bs[p + 1] as usize) << 16) | ((bs[p + 2] as usize) << 8) | bs[p + 3] as usize; p += 4; }
        }
        if !ok || bs.len() - p < lens[0] + lens[1] { return out; }
        out.push((bs[p..p + lens[0]].to_vec(), bs[p + lens[0]..p + lens[0] + lens[1]].to_vec()));
        bs = &bs[p + lens[0] + lens[1]..];
    }
}

pub const VAR_NAMES: [&[u8]; 3] = [b"FCGI_MAX_CONNS", b"FCGI_MAX_REQS", b"FCGI_MPXS_CONNS"];

/// The GetValuesResult the specification prescribes for a GetValues body (None: no reply owed).
pub fn spec_getvalues_reply(body: &[u8], max_conns: usize) -> Option<Vec<u8>> {
    if body.is_empty() { return None; }
    let pairs = spec_nv_all(body);
    let mut b = vec![];
    for (i, nm) in VAR_NAMES.iter().enumerate() {
        if pairs.iter().any(|(n, _)| n == nm) {
            let val = if i == 2 { b"0".to_vec() } else { max_conns.to_string().into_bytes() };
            b.extend(nv_enc(nm, &val));
        }
    }
    let pad = (8 - b.len() % 8) % 8;
    let mut o = vec![1, T_GETVALUESRESULT, 0, 0, (b.len() >> 8) as u8, b.len() as u8, pad as u8, 0];
    o.extend(&b);
    o.extend(std::iter::repeat(0).take(pad));
    Some(o)
}
pub fn spec_unknown_reply(t: u8, id: u16) -> Vec<u8> { vec![1, T_UNKNOWN, (id >> 8) as u8, id as u8, 0, 8, 0, 0, t, 0, 0, 0, 0, 0, 0, 0] }
pub fn spec_end_request(id: u16, app: u32, ps: u8) -> Vec<u8> {
    let a = app.to_be_bytes();
    vec![1, T_END, (id >> 8) as u8, id as u8, 0, 8, 0, 0, a[0], a[1], a[2], a[3], ps, 0, 0, 0]
}

/// Where the connection is, from the specification's point of view.
#[derive(Clone, Copy, Debug, PartialEq)]
pub enum Phase { Idle, Active(u16) }

/// The reply owed for one *noise* record (records that are not part of the request's own preamble/streams).
pub fn spec_owed(phase: Phase, r: &Rec, max_conns: usize) -> Vec<u8> {
    if !(1..=11).contains(&r.rtype) { return spec_unknown_reply(r.rtype, r.id); }
    if r.rtype == T_GETVALUES && r.id == 0 { return spec_getvalues_reply(&r.content, max_conns).unwrap_or_default(); }
    if r.rtype == T_BEGIN {
        match phase {
            Phase::Active(cur) if r.id != cur => return spec_end_request(r.id, 0, 1),   // CantMpxConn
            Phase::Idle if r.content.len() == 8 => {
                let role = u16::from_be_bytes([r.content[0], r.content[1]]);
                if !(1..=3).contains(&role) { return spec_end_request(r.id, 0, 3); }        // UnknownRole
            }
            _ => {}
        }
    }
    vec![]
}

/// Expected environment: last value wins, names lossily decoded + ASCII-uppercased (std's lossy decoder as reference).
pub fn spec_env(pairs: &[(Vec<u8>, Vec<u8>)]) -> Vec<(Vec<u8>, Vec<u8>)> {
    let mut m: Vec<(Vec<u8>, Vec<u8>)> = vec![];
    for (n, v) in pairs {
        let key = String::from_utf8_lossy(n).to_ascii_uppercase().into_bytes();
        if let Some(e) = m.iter_mut().find(|e| e.0 == key) { e.1 = v.clone(); } else { m.push((key, v.clone())); }
    }
    m
}
pub fn env_fmt(env: &[(Vec<u8>, Vec<u8>)]) -> String {
    if env.is_empty() { return "-".into(); }
    let mut items: Vec<String> = env.iter().map(|(k, v)| format!("{}:{}", hexd(k), hexd(v))).collect();
    items.sort();
    items.join(",")
}

// ------------------------------------------------------------------ generators

pub fn gv_body(rng: &mut Rng, max_pair: usize) -> Vec<u8> {
    let mut b = vec![];
    let n = rng.usize_below(5);
    for _ in 0..n {
        let (name, val): (Vec<u8>, Vec<u8>) = match rng.below(8) {
            0..=2 => (rng.pick(&VAR_NAMES).to_vec(), vec![]),
            3 => (rng.pick(&VAR_NAMES).to_vec(), rng.bytes(rng.clone().usize_below(4))),     // value-carrying
            4 => (rng.pick(&VAR_NAMES).to_ascii_lowercase(), vec![]),                       // wrong case: unknown
            5 => (vec![0xff, 0xfe, b'X'], vec![]),                                           // non-UTF-8
            6 => (b"FCGI_UNKNOWN".to_vec(), vec![]),
            // names that are NOT one of the three variables but that a sloppy lookup (trimming, flag-set text grammar, prefix or
            // case-insensitive match) would accept
            7 if rng.chance(1, 2) => (rng.pick(&[&b"0x07"[..], b"0x1", b"0x3", b" FCGI_MAX_REQS", b"FCGI_MAX_REQS ", b"FCGI_MAX_REQS|", b"|FCGI_MAX_REQS", b"", b" ", b"FCGI_MAX_CONN", b"fcgi_max_reqs", b"MAX_CONNS", b"FCGI_MAX_REQS\0"]).to_vec(), vec![]),   // all <= 15 bytes: a pair must fit the smallest (24-byte) buffer
            _ => (rng.bytes(rng.clone().usize_below(6)), vec![]),
        };
        if name.len() + val.len() <= max_pair { b.extend(nv_enc(&name, &val)); }
    }
    if rng.chance(1, 5) { // incomplete trailing pair
        let t = nv_enc(b"FCGI_MAX_REQS", b"");
        let cut = 1 + rng.usize_below(t.len() - 1);
        if cut <= max_pair { b.extend(&t[..cut]); }
    }
    b
}

/// ids below this value are reserved for a connection's own requests (0 = no reservation; set by `runfam::gen_req`)
pub static FOREIGN_MIN: std::sync::atomic::AtomicU16 = std::sync::atomic::AtomicU16::new(0);
/// One noise record legal in the given phase (never the request's own records).
pub fn noise(rng: &mut Rng, phase: Phase, max_pair: usize) -> Rec {
    // connection families reserve the ids below FOREIGN_MIN for the requests of the connection, so that a foreign-id noise record
    // can never carry the id of ANOTHER request of the same connection (its CantMpxConn / UnknownType reply would be misattributed)
    let fmin = FOREIGN_MIN.load(std::sync::atomic::Ordering::Relaxed);
    let foreign = |rng: &mut Rng| -> u16 { loop { let mut i = rng.below(65536) as u16; if i != 0 && i < fmin { i |= fmin; } if Phase::Active(i) != phase { return if rng.chance(1, 6) { 0 } else { i }; } } };
    let small = |rng: &mut Rng| -> Vec<u8> { let n = match rng.below(4) { 0 => 0, 1 => rng.usize_below(9), _ => rng.usize_below(70) }; rng.bytes(n) };
    match rng.below(10) {
        // a quarter of the queries carry PADDING that spells a complete pair naming a known variable (padding is not part of the query)
        0..=2 => { let body = gv_body(rng, max_pair); let pad = if rng.chance(1, 4) { let nm: &[u8] = *rng.pick(&VAR_NAMES); let mut p = nv_enc(nm, b""); let extra = rng.usize_below(6); p.extend(std::iter::repeat(0u8).take(extra)); p } else { pad_bytes(rng) }; Rec::new(T_GETVALUES, 0, body, pad) },
        3..=4 => { let t = loop { let t = rng.below(256) as u8; if !(1..=11).contains(&t) { break t; } }; let id = if rng.chance(1, 2) { 0 } else { rng.below(65536) as u16 }; Rec::new(t, id, small(rng), pad_bytes(rng)) }
        5 => Rec::new(T_GETVALUES, { let i = foreign(rng); if i == 0 { 7 } else { i } }, gv_body(rng, max_pair), pad_bytes(rng)),  // GetValues with a request id: skipped
        6 => match phase {
            Phase::Active(_) => { let mut id = foreign(rng); if id == 0 { id = 9 } if Phase::Active(id) == phase { id ^= 1; if id == 0 { id = 2; } } if rng.chance(1, 4) {
                    // a foreign-id BeginRequest whose header announces a body of some other length than 8: refused all the same, and skipped by
                    // the length its HEADER gives (during a request the body of a foreign BeginRequest is never looked at)
                    let n = *rng.pick(&[0usize, 1, 7, 9, 16, 24, 40]); Rec::new(T_BEGIN, id, rng.bytes(n), pad_bytes(rng))
                } else { begin(id, rng.range(0, 5) as u16, rng.next() as u8, pad_bytes(rng)) } }
            Phase::Idle => begin(if rng.chance(1, 5) { 0 } else { rng.below(65536) as u16 }, *rng.pick(&[0u16, 4, 5, 255, 256, 65535]), rng.next() as u8, pad_bytes(rng)),   // unknown role: rejected, not started
        },
        7 => { let t = *rng.pick(&[T_ABORT, T_END, T_PARAMS, T_STDIN, T_STDOUT, T_STDERR, T_DATA, T_GETVALUESRESULT, T_UNKNOWN]); Rec::new(t, foreign(rng), small(rng), pad_bytes(rng)) }
        8 => match phase {
            // stale / unexpected records of the *same* id that the preamble parser must skip silently
            Phase::Active(id) => { let t = *rng.pick(&[T_BEGIN, T_END, T_STDIN, T_STDOUT, T_DATA, T_GETVALUESRESULT, T_UNKNOWN]); Rec::new(t, id, if t == T_BEGIN { vec![0, 1, 0, 0, 0, 0, 0, 0] } else { small(rng) }, pad_bytes(rng)) }
            Phase::Idle => { let t = *rng.pick(&[T_ABORT, T_END, T_PARAMS, T_STDIN, T_DATA]); Rec::new(t, rng.below(65536) as u16, small(rng), pad_bytes(rng)) }
        },
        _ => Rec::new(T_GETVALUES, 0, vec![], pad_bytes(rng)),   // empty query: no reply
    }
}

#[derive(Clone, Debug)]
pub struct Preamble { pub id: u16, pub role: u16, pub flags: u8, pub pairs: Vec<(Vec<u8>, Vec<u8>)> }

pub const LEN_SET: [usize; 13] = [0, 1, 2, 126, 127, 128, 129, 255, 256, 65534, 65535, 65536, 70000];

pub fn gen_name(rng: &mut Rng, len: usize) -> Vec<u8> {
    match rng.below(6) {
        0 => (0..len).map(|i| b"http_x-real_header-name"[i % 23]).collect(),   // HTTP_ prefix with dashes AND underscores behind it
        1 => (0..len).map(|i| b"CONTENT_LENGTH"[i % 14]).collect(),
        2 => { let mut b: Vec<u8> = (0..len).map(|_| rng.range(0x41, 0x7a) as u8).collect(); if len > 2 { let k = rng.usize_below(len); b[k] = *rng.pick(&[0xff, 0xc3, 0xe2, 0x80, 0xf0, 0xed]); } b }   // non-UTF-8 / truncated sequences
        3 => "Ünï-cödé_ß".bytes().cycle().take(len).collect(),
        _ => (0..len).map(|_| *rng.pick(b"abcXYZ_09-")).collect(),
    }
}

pub fn gen_pairs(rng: &mut Rng, big: bool) -> Vec<(Vec<u8>, Vec<u8>)> {
    let n = match rng.below(8) { 0 => 0, 1 => 1, _ => 1 + rng.usize_below(7) };
    let mut ps: Vec<(Vec<u8>, Vec<u8>)> = vec![];
    let mut bigs = 0;
    for _ in 0..n {
        let pick = |rng: &mut Rng, bigs: &mut u32| -> usize {
            if big && *bigs < 1 && rng.chance(1, 3) { *bigs += 1; *rng.pick(&LEN_SET[9..]) }
            else { match rng.below(5) { 0 => *rng.pick(&LEN_SET[..9]), 1 => rng.usize_below(4), _ => rng.usize_below(40) } }
        };
        let nl = pick(rng, &mut bigs); let vl = pick(rng, &mut bigs);
        let mut name = gen_name(rng, nl);
        if !ps.is_empty() && rng.chance(1, 4) {
            // duplicate / case-variant of an earlier name
            let k = rng.usize_below(ps.len());
            name = ps[k].0.iter().map(|&b| if rng.chance(1, 2) { b.to_ascii_lowercase() } else { b.to_ascii_uppercase() }).collect();
        }
        else if !ps.is_empty() && rng.chance(1, 8) {
            // near-duplicate that must stay DISTINCT: one `-` of an earlier name turned into `_` or the reverse (any case)
            let k = rng.usize_below(ps.len());
            let pos: Vec<usize> = ps[k].0.iter().enumerate().filter(|(_, &b)| b == b'-' || b == b'_').map(|(i, _)| i).collect();
            if !pos.is_empty() { let at = *rng.pick(&pos); name = ps[k].0.clone(); name[at] = if name[at] == b'-' { b'_' } else { b'-' }; if rng.chance(1, 2) { name = name.to_ascii_uppercase(); } }
        }
        ps.push((name, rng.bytes(vl)));
    }
    ps
}

/// Cuts a Params payload into record contents (each 1..=65535 bytes) at offsets of every kind.
pub fn cut_payload(rng: &mut Rng, payload: &[u8], pair_starts: &[usize]) -> Vec<Vec<u8>> {
    if payload.is_empty() { return vec![]; }
    let mut cuts: Vec<usize> = vec![];
    match rng.below(7) {
        0 => {}                                                                     // one record (if it fits)
        // tiny records: pairs over 3+ records.  For payloads beyond 16 KiB the tiny records cover the first and the last 2 KiB only
        // (tens of thousands of 1..4-byte records add nothing but make the list-based model quadratic)
        1 => { let k = 1 + rng.usize_below(4); let mut p = k; while p < payload.len() { if payload.len() <= 16_384 || p < 2048 || p + 2048 > payload.len() { cuts.push(p); } p += k; } }
        2 => for &s in pair_starts { for d in 0..9 { if rng.chance(1, 3) && s + d < payload.len() && s + d > 0 { cuts.push(s + d); } } },   // inside length prefixes
        3 => for &s in pair_starts { if s > 0 { cuts.push(s); } },               // exactly at pair boundaries
        _ => { let n = rng.usize_below(6); for _ in 0..n { cuts.push(1 + rng.usize_below(payload.len())); } }
    }
    // enforce the 65535 limit
    cuts.sort(); cuts.dedup(); cuts.retain(|&c| c > 0 && c < payload.len());
    let mut out = vec![]; let mut start = 0;
    let mut all: Vec<usize> = cuts; all.push(payload.len());
    for c in all {
        let mut s = start;
        while c - s > 65535 { let step = if rng.chance(1, 2) { 65535 } else { 1 + rng.usize_below(65535) }; out.push(payload[s..s + step].to_vec()); s += step; }
        if c > s { out.push(payload[s..c].to_vec()); }
        start = c;
    }
    out
}

pub struct Built { pub recs: Vec<Rec>, pub expected_out: Vec<u8>, pub max_gv_pair: usize }

/// A well-formed preamble: BeginRequest, Params records (cut anywhere, arbitrary padding), empty Params,
/// with noise records interleaved at every kind of position.
pub fn build_preamble(rng: &mut Rng, pre: &Preamble, noise_level: u64, max_conns: usize, max_pair: usize) -> Built {
    let mut recs = vec![]; let mut exp = vec![];
    let mut add_noise = |rng: &mut Rng, recs: &mut Vec<Rec>, exp: &mut Vec<u8>, phase: Phase| {
        while noise_level > 0 && rng.chance(noise_level, 10) { let r = noise(rng, phase, max_pair); exp.extend(spec_owed(phase, &r, max_conns)); recs.push(r); }
    };
    add_noise(rng, &mut recs, &mut exp, Phase::Idle);
    recs.push(begin(pre.id, pre.role, pre.flags, pad_bytes(rng)));
    let ph = Phase::Active(pre.id);
    let mut payload = vec![]; let mut starts = vec![];
    for (n, v) in &pre.pairs { starts.push(payload.len()); payload.extend(nv_enc(n, v)); }
    for c in cut_payload(rng, &payload, &starts) {
        add_noise(rng, &mut recs, &mut exp, ph);
        recs.push(Rec::new(T_PARAMS, pre.id, c, pad_bytes(rng)));
    }
    add_noise(rng, &mut recs, &mut exp, ph);
    recs.push(Rec::new(T_PARAMS, pre.id, vec![], pad_bytes(rng)));
    Built { recs, expected_out: exp, max_gv_pair: max_pair }
}

/// Input-stream records for `stype` with the given content, cut anywhere, ending with the empty record.
pub fn build_stream(rng: &mut Rng, id: u16, stype: u8, content: &[u8], noise_level: u64, max_conns: usize, exp: &mut Vec<u8>, terminate: bool) -> Vec<Rec> {
    let mut recs = vec![];
    let ph = Phase::Active(id);
    let mut pos = 0;
    while pos < content.len() {
        let step = match rng.below(6) { 0 => 1, 1 => 1 + rng.usize_below(8), 2 => content.len() - pos, _ => 1 + rng.usize_below((content.len() - pos).min(65535)) }.min(65535).min(content.len() - pos);
        while noise_level > 0 && rng.chance(noise_level, 10) { let r = noise_stream(rng, ph); exp.extend(spec_owed(ph, &r, max_conns)); recs.push(r); }
        recs.push(Rec::new(stype, id, content[pos..pos + step].to_vec(), pad_bytes(rng)));
        pos += step;
    }
    while noise_level > 0 && rng.chance(noise_level, 10) { let r = noise_stream(rng, ph); exp.extend(spec_owed(ph, &r, max_conns)); recs.push(r); }
    if terminate { recs.push(Rec::new(stype, id, vec![], pad_bytes(rng))); }
    recs
}

/// Noise legal while input streams are being received: never an input-stream record or AbortRequest of the request's id.
pub fn noise_stream(rng: &mut Rng, phase: Phase) -> Rec {
    loop {
        let r = noise(rng, phase, 40);
        if let Phase::Active(id) = phase { if r.id == id && (r.rtype == T_STDIN || r.rtype == T_DATA || r.rtype == T_ABORT) { continue; } }
        return r;
    }
}

/// Chunking plans for feeding a wire: returns the next chunk size given (remaining, free).
#[derive(Clone, Debug)]
pub enum Chunking { One, All, Fill, Fixed(usize), Random(u64), Cut(usize) }
impl Chunking {
    pub fn next(&self, rng: &mut Rng, pos: usize, remaining: usize, free: usize) -> usize {
        let n = match self {
            Chunking::One => 1,
            Chunking::All => remaining,
            Chunking::Fill => free,
            Chunking::Fixed(k) => *k,
            Chunking::Random(_) => match rng.below(6) { 0 => 1, 1 => 1 + rng.usize_below(8), 2 => free, _ => 1 + rng.usize_below(remaining.min(300)) },
            Chunking::Cut(c) => if pos < *c { c - pos } else { remaining },
        };
        n.max(1).min(remaining).min(free)
    }
    pub fn pick(rng: &mut Rng, wire_len: usize) -> Chunking {
        match rng.below(8) { 0 => Chunking::One, 1 => Chunking::All, 2 => Chunking::Fill, 3 => Chunking::Fixed(1 + rng.usize_below(17)), 4 => Chunking::Cut(rng.usize_below(wire_len.max(1))), _ => Chunking::Random(rng.next()) }
    }
}
