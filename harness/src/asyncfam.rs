//! Poll-level async family: C10 (output records) and C09 (async reads / writeable gate), driven through the
//! public `Request` / `StreamWriter` poll API with a scripted transport.
use crate::exec::{run as ex, Impl};
use crate::gen::*;
use crate::strfam::{gen_stream_case, role_streams};
use crate::util::*;

fn field<'a>(obs: &'a str, key: &str) -> Option<&'a str> {
    obs.split(' ').find_map(|t| t.strip_prefix(key).and_then(|r| r.strip_prefix('=')))
}

pub fn wr_script(rng: &mut Rng, n: usize, faults: bool) -> String {
    if n == 0 { return "-".into(); }
    (0..n).map(|_| match rng.below(12) { 0..=2 => "P".to_string(), 3 => "A".into(), 4 => "1".into(), 5 => "7".into(), 6 => "8".into(), 7 => "9".into(), 8 if faults => "Z".into(), 9 if faults => "E".into(), _ => (1 + rng.below(40)).to_string() }).collect::<Vec<_>>().join(",")
}
pub fn rd_script(rng: &mut Rng, n: usize) -> String {
    if n == 0 { return "-".into(); }
    (0..n).map(|_| match rng.below(8) { 0 | 1 => "P".to_string(), 2 => "A".into(), 3 => "1".into(), _ => (1 + rng.below(50)).to_string() }).collect::<Vec<_>>().join(",")
}

/// Independent record decoder for the transport log: complete records + the trailing partial bytes.
pub fn decode_log(log: &[u8]) -> (Vec<Rec>, Vec<u8>, Option<String>) {
    let mut recs = vec![]; let mut p = 0;
    while log.len() - p >= 8 {
        let h = &log[p..p + 8];
        if h[0] != 1 { return (recs, log[p..].to_vec(), Some(format!("record at offset {p} has version {}", h[0]))); }
        let len = u16::from_be_bytes([h[4], h[5]]) as usize; let pad = h[6] as usize;
        if log.len() - p < 8 + len + pad { break; }
        recs.push(Rec { version: 1, rtype: h[1], id: u16::from_be_bytes([h[2], h[3]]), content: log[p + 8..p + 8 + len].to_vec(), pad: log[p + 8 + len..p + 8 + len + pad].to_vec(), declared: None });
        p += 8 + len + pad;
    }
    (recs, log[p..].to_vec(), None)
}

struct Job { data: Vec<u8>, flush_after: bool }
struct W { idx: usize, rtype: u8, jobs: Vec<Job>, cur: usize, in_flush: bool, done_payloads: Vec<Vec<u8>>, dead: bool, was_pending: bool }

// =====================================================================================================  C10
pub fn run_c10(ctx: &mut Ctx) {
    let mut log = Log::new(&ctx.dir);
    let mut im = Impl::new();
    let mut or = Oracle::new("C10",
        "1..3 writers (stdout, stderr, clones) polled in scripted random order together with the request's own reply flushing (GetValues / unknown-type records arriving on the input); write sizes from {0,1,7,8,9,65535,65536,70000} and random; \
         transports whose poll_write / poll_write_vectored accept 1..n bytes (cutting inside the header, at the seams, inside padding) or return Pending; flush calls between writes. Oracle: independent record decoder on the byte log. \
         Non-trivial: >= 2 pollers or a short-write/pending answer occurred; distinct by case");
    let mut rng = ctx.rng.fork();
    crate::exec::witness_corpus(&["C10_"], &mut log, &mut im, &mut or);
    // corpus first: minimised past failures
    let corpus = std::path::Path::new(env!("CARGO_MANIFEST_DIR")).join("../corpus/C10.txt");
    if let Ok(text) = std::fs::read_to_string(&corpus) {
        let mut wl: Vec<u8> = vec![]; let mut cur = String::new(); let mut any = false;
        let mut finish = |or: &mut Oracle, log: &Log, cur: &str, wl: &mut Vec<u8>, any: bool| { if any { let (_, partial, bad) = decode_log(wl); if bad.is_some() || !partial.is_empty() { or.fail(format!("corpus history {cur}: the bytes written are not a sequence of complete records"), log.replay_block(), format!("C10:malformed:{cur}")); } or.eval((cur.to_string(), wl.len()), true); or.count("corpus_cases"); } wl.clear(); };
        for line in text.lines() {
            if let Some(id) = line.strip_prefix("# case ") { finish(&mut or, &log, &cur, &mut wl, any); log.case(id); cur = id.to_string(); any = true; }
            else if line.starts_with("a.") {
                let o = ex(&mut log, &mut im, line);
                wl.extend(unhex(field(&o, "wd").unwrap_or("-")));
                if o.starts_with("panic") { or.fail(format!("corpus history {cur}: `{}` panicked", &line[..line.len().min(40)]), log.replay_block(), format!("C10:panic:{cur}")); }
            }
        }
        finish(&mut or, &log, &cur, &mut wl, any);
    }
    for ci in 0..ctx.n(1200, 10_000) {
        if or.saturated() { or.count("stopped_early_saturated"); break; }
        let id = rng.range(1, 65535) as u16;
        let role = *rng.pick(&[1u16, 1, 2, 3]);
        let mc = 1 + rng.usize_below(1000);
        // management traffic on the input so that the Request itself needs the mutex
        let nnoise = rng.usize_below(4);
        let mut inrecs = vec![]; let mut exp_replies = vec![];
        for _ in 0..nnoise { let r = if rng.chance(1, 2) { Rec::new(T_GETVALUES, 0, nv_enc(*rng.pick(&VAR_NAMES[..]), b""), pad_bytes(&mut rng)) } else { Rec::new(rng.range(12, 255) as u8, rng.below(3) as u16, rng.bytes(rng.clone().usize_below(12)), vec![]) };
            exp_replies.extend(spec_owed(Phase::Active(id), &r, mc)); inrecs.push(r); }
        if role == 3 { inrecs.insert(0, Rec::new(T_DATA, id, vec![0x55], vec![])); }
        let input = ser_all(&inrecs);
        let big = ci % 29 == 3;
        let nanswers = if big { 40 } else { 30 + rng.usize_below(200) };
        let wr = wr_script(&mut rng, nanswers, false);
        let fl: String = (0..rng.usize_below(6)).map(|_| if rng.chance(1, 3) { "P" } else { "O" }).collect::<Vec<_>>().join(",");
        log.case(&format!("c10-{ci}"));
        let o = ex(&mut log, &mut im, &format!("a.new 256 {mc} {id} {role} 1 in={} end=pend rd={} wr={wr} fl={} la=0", hexd(&input), rd_script(&mut rng, 6), if fl.is_empty() { "-".to_string() } else { fl }));
        if !o.starts_with("ok") { or.fail(format!("setup failed: {o}"), log.replay_block(), "C10:setup".into()); continue; }
        // a Filter is only writeable once its final stream was reached: select it and feed its (empty) start
        if role == 3 { ex(&mut log, &mut im, "a.set_stream 8"); for _ in 0..60 { let o = ex(&mut log, &mut im, "a.read 1"); if field(&o, "w") == Some("true") { break; } } }
        let nw = 1 + rng.usize_below(3);
        let mut ws: Vec<W> = vec![];
        let mut abort_case = false;
        for k in 0..nw {
            let (o, rtype) = if k > 0 && rng.chance(1, 3) { let src = rng.usize_below(ws.len()); (ex(&mut log, &mut im, &format!("a.clone {}", ws[src].idx)), ws[src].rtype) }
                             else { let t = if rng.chance(1, 2) { T_STDOUT } else { T_STDERR }; (ex(&mut log, &mut im, &format!("a.open {t}")), t) };
            if o.starts_with("panic") {
                // not writeable yet (Filter before its final stream): documented panic
                if role != 3 { or.fail(format!("output_stream panicked for a writeable request: {o}"), log.replay_block(), "C10:open-panic".into()); }
                abort_case = true; break;
            }
            let idx: usize = o[1..].split(' ').next().unwrap().parse().unwrap();
            let njobs = 1 + rng.usize_below(4);
            let jobs = (0..njobs).map(|_| { let len = if big && rng.chance(1, 3) { *rng.pick(&[65535usize, 65536, 70000]) } else { *rng.pick(&[0usize, 1, 7, 8, 9, 15, 16, 17, 100, 300]) + rng.usize_below(3) * rng.usize_below(2) };
                Job { data: rng.bytes(len), flush_after: rng.chance(1, 4) } }).collect();
            ws.push(W { idx, rtype, jobs, cur: 0, in_flush: false, done_payloads: vec![], dead: false, was_pending: false });
        }
        if abort_case { or.count("filter_not_writeable"); continue; }
        let mut wlog: Vec<u8> = vec![];
        let mut guard = 0; let mut shortw = false;
        let mut req_reads = 0; let mut pend_streak = 0usize;
        loop {
            guard += 1; if guard > 3_000 { or.fail("writers did not finish (transport always accepts eventually)".into(), log.replay_block(), "C10:hang".into()); break; }
            let active: Vec<usize> = ws.iter().enumerate().filter(|(_, w)| !w.dead && (w.cur < w.jobs.len() || w.in_flush)).map(|(i, _)| i).collect();
            if active.is_empty() { break; }
            // sometimes poll the request itself (reads management records, flushes replies under the same mutex)
            // (the request must keep being polled while it holds the mutex for a reply whose flush is Pending: writers wait for it)
            if (req_reads < 40 && rng.chance(1, 5)) || pend_streak > 12 { pend_streak = 0; let o = ex(&mut log, &mut im, &format!("a.read {}", 1 + rng.usize_below(8))); wlog.extend(unhex(field(&o, "wd").unwrap_or("-"))); req_reads += 1; if field(&o, "ev").map_or(false, |e| e.contains(":P")) { shortw = true; } continue; }
            // a clone made in the MIDDLE of the schedule — its source may be idle, waiting for the mutex, inside a record (Pending or
            // partially written) or flushing — is an independent, idle writer of the same stream
            if ws.len() < 5 && rng.chance(1, 25) {
                let src = *rng.pick(&active);
                let (sidx, srtype) = (ws[src].idx, ws[src].rtype);
                let o = ex(&mut log, &mut im, &format!("a.clone {sidx}"));
                if let Some(idx) = o.strip_prefix('w').and_then(|r| r.split(' ').next()).and_then(|x| x.parse::<usize>().ok()) {
                    let njobs = 1 + rng.usize_below(3);
                    let jobs = (0..njobs).map(|_| { let len = *rng.pick(&[1usize, 7, 8, 9, 30, 200]); Job { data: rng.bytes(len), flush_after: rng.chance(1, 4) } }).collect();
                    ws.push(W { idx, rtype: srtype, jobs, cur: 0, in_flush: false, done_payloads: vec![], dead: false, was_pending: false });
                    or.count("clones_made_mid_schedule");
                } else { or.fail(format!("cloning a writer failed: {o}"), log.replay_block(), "C10:clone".into()); }
                continue;
            }
            let wi = *rng.pick(&active);
            let w = &mut ws[wi];
            // AsyncWrite allows a Pending write to be polled again with a DIFFERENT buffer; the realistic case is the same bytes with more
            // behind them.  A record already begun keeps the length its header announced (the call then returns the old length); a record
            // not yet begun is sized by the buffer of the call that begins it
            let mut longer: Option<Vec<u8>> = None;
            if !w.in_flush && w.was_pending && rng.chance(1, 5) { let mut d = w.jobs[w.cur].data.clone(); let extra = 1 + rng.usize_below(20); d.extend(rng.bytes(extra)); longer = Some(d); or.count("repolls_with_longer_buffer"); }
            let o = if w.in_flush { ex(&mut log, &mut im, &format!("a.fpoll {}", w.idx)) } else { ex(&mut log, &mut im, &format!("a.wpoll {} {}", w.idx, hexd(longer.as_ref().unwrap_or(&w.jobs[w.cur].data)))) };
            if !w.in_flush { w.was_pending = o.starts_with("pending"); }
            if let (Some(d), true) = (&longer, o.starts_with("ready")) {
                // whichever length the record got, its payload is that prefix of the longer buffer
                let n: usize = o.split(' ').nth(1).and_then(|x| x.parse().ok()).unwrap_or(usize::MAX);
                if n == d.len().min(65535) { w.jobs[w.cur].data = d.clone(); }
                else if n != w.jobs[w.cur].data.len().min(65535) { or.fail(format!("poll_write re-polled with a longer buffer returned Ok({n}): neither the length of the record already begun ({}) nor that of the new buffer ({})", w.jobs[w.cur].data.len(), d.len()), log.replay_block(), "C10:count-longer".into()); }
            }
            wlog.extend(unhex(field(&o, "wd").unwrap_or("-")));
            if let Some(e) = field(&o, "ev") { if e.contains(":P") || e.split(',').any(|x| { let mut it = x.split(':'); let l = it.next().unwrap_or(""); let r = it.next().unwrap_or(""); l.starts_with('V') && r.parse::<usize>().ok() != l[1..].split('+').map(|z| z.parse::<usize>().unwrap_or(0)).sum::<usize>().into() }) { shortw = true; } }
            if o.starts_with("pending") { pend_streak += 1; } else { pend_streak = 0; }
            if o.starts_with("panic") { or.fail(format!("writer poll panicked: {o}"), log.replay_block(), "C10:panic".into()); w.dead = true; continue; }
            if o.starts_with("err") { or.fail(format!("writer poll failed without a transport fault: {o}"), log.replay_block(), "C10:error".into()); w.dead = true; continue; }
            if o.starts_with("ready") {
                if w.in_flush { w.in_flush = false; }
                else {
                    let n: usize = o.split(' ').nth(1).unwrap().parse().unwrap();
                    let job = &w.jobs[w.cur];
                    let expn = job.data.len().min(65535);
                    if n != expn { or.fail(format!("poll_write of {} bytes returned Ok({n}), expected {expn}", job.data.len()), log.replay_block(), "C10:count".into()); }
                    if n > 0 { w.done_payloads.push(job.data[..n.min(job.data.len())].to_vec()); }
                    if job.flush_after { w.in_flush = true; }
                    w.cur += 1;
                    // AsyncWriteExt::close() on a StreamWriter between records: succeeds at once and writes nothing (only the Request ends streams)
                    if rng.chance(1, 8) { let idx = w.idx; let o = ex(&mut log, &mut im, &format!("a.cpoll {idx}")); wlog.extend(unhex(field(&o, "wd").unwrap_or("-")));
                        if !o.starts_with("ready") || field(&o, "wd") != Some("-") { or.fail(format!("poll_close of an idle StreamWriter returned `{}`", &o[..o.len().min(60)]), log.replay_block(), "C10:close".into()); }
                        or.count("writer_closes"); }
                }
            }
        }
        // flush the request's own replies: poll reads until nothing more is written
        let mut quiet = 0;
        for _ in 0..400 { let o = ex(&mut log, &mut im, "a.read 4"); let wd = unhex(field(&o, "wd").unwrap_or("-")); let waiting = field(&o, "ev").map_or(false, |e| e.ends_with(":W"));
            if wd.is_empty() && waiting { quiet += 1; if quiet >= 2 { break; } } else { quiet = 0; } wlog.extend(wd); }
        // --- oracle on the byte log
        let (recs, partial, bad) = decode_log(&wlog);
        if let Some(b) = bad { or.fail(format!("byte log is not a record sequence: {b}"), log.replay_block(), "C10:malformed".into()); continue; }
        if !partial.is_empty() { or.fail(format!("byte log ends with {} bytes of an incomplete record although every write completed", partial.len()), log.replay_block(), "C10:partial".into()); }
        let mut next: Vec<usize> = vec![0; ws.len()];
        let mut replies = vec![];
        let mut stream_recs: Vec<(u8, Vec<u8>)> = vec![];
        for r in &recs {
            if r.rtype == T_STDOUT || r.rtype == T_STDERR {
                let okfmt = r.id == id && r.pad.len() < 8 && (r.content.len() + r.pad.len()) % 8 == 0 && r.pad.iter().all(|&b| b == 0) && !r.content.is_empty();
                if !okfmt { or.fail(format!("stream record malformed: type {} id {} len {} pad {}", r.rtype, r.id, r.content.len(), r.pad.len()), log.replay_block(), "C10:record-format".into()); }
                stream_recs.push((r.rtype, r.content.clone()));
            } else { replies.extend(r.ser()); }
        }
        // the stream records, in log order, must be an interleaving of the writers' completed payload sequences (per stream type; a
        // search, not a greedy match: two writers of one stream may complete identical payloads)
        { let seqs: Vec<(u8, &Vec<Vec<u8>>)> = ws.iter().map(|w| (w.rtype, &w.done_payloads)).collect();
          fn go(p: usize, next: &mut Vec<usize>, recs: &[(u8, Vec<u8>)], seqs: &[(u8, &Vec<Vec<u8>>)], dead: &mut std::collections::HashSet<(usize, Vec<usize>)>) -> bool {
              if p == recs.len() { return next.iter().zip(seqs).all(|(n, s)| *n == s.1.len()); }
              if dead.contains(&(p, next.clone())) { return false; }
              for i in 0..seqs.len() { if seqs[i].0 == recs[p].0 && next[i] < seqs[i].1.len() && seqs[i].1[next[i]] == recs[p].1 { next[i] += 1; if go(p + 1, next, recs, seqs, dead) { return true; } next[i] -= 1; } }
              dead.insert((p, next.clone())); false }
          let total: usize = seqs.iter().map(|s| s.1.len()).sum();
          if !go(0, &mut next, &stream_recs, &seqs, &mut Default::default()) {
              or.fail(format!("the {} stream records in the log are not an interleaving of the writers' {} completed writes (a payload was lost, duplicated, reordered within a writer, or mixed)", stream_recs.len(), total), log.replay_block(), "C10:attribution".into()); } }
        // a role without input streams never reads from the transport while the handler runs (active stream none)
        let exp_replies = if role == 2 { vec![] } else { exp_replies };
        if replies != exp_replies { or.fail(format!("management replies in the log ({} bytes) differ from those owed ({} bytes)", replies.len(), exp_replies.len()), log.replay_block(), "C10:replies".into()); }
        or.eval((ci, &wlog), ws.len() >= 2 || shortw || !exp_replies.is_empty());
        or.count(&format!("writers={}", ws.len()));
        if ci == 0 { or.sample(format!("{} writers, {} records in the log, {} reply bytes, write script {}", ws.len(), recs.len(), exp_replies.len(), &wr[..wr.len().min(60)])); }
    }
    or.count_n("corr_ops", log.nops);
    log.finish();
    or.write(&ctx.dir);
}

// =====================================================================================================  C09
pub fn run_c09(ctx: &mut Ctx) {
    let mut log = Log::new(&ctx.dir);
    let mut im = Impl::new();
    let mut or = Oracle::new("C09",
        "3 roles x stream contents and segmentations (with management records mid-stream) x handler sequences of poll_read(len 0..n) / poll_fill_buf + consume(k) / set_stream / writeable() / output_stream x read answers 1..n bytes or Pending at any call x write answers 1..n or Pending during reply flushing; \
         is_writeable() sampled after every poll. Oracle: bytes returned per active stream vs what was sent, EOF persistence, writeable gate, replies in the byte log. Non-trivial: stream content or noise present; distinct by case");
    let mut rng = ctx.rng.fork();
    crate::exec::witness_corpus(&["C09_"], &mut log, &mut im, &mut or);
    for ci in 0..ctx.n(2000, 12_000) {
        if or.saturated() { or.count("stopped_early_saturated"); break; }
        let mc = 1 + rng.usize_below(200);
        let nl = rng.below(5);
        let case = gen_stream_case(&mut rng, nl, mc, false);
        let wire = ser_all(&case.recs);
        let b = *rng.pick(&[24usize, 32, 64, 128, 1024]);
        let la = if rng.chance(1, 3) { rng.usize_below(wire.len().min(b.saturating_sub(40)) + 1) } else { 0 };
        log.case(&format!("c09-{ci}"));
        let endm = if rng.chance(1, 2) { "eof" } else { "pend" };
        let o = ex(&mut log, &mut im, &format!("a.new {b} {mc} {} {} {} in={} end={endm} rd={} wr={} fl=- la={la}", case.id, case.role, case.flags, hexd(&wire), rd_script(&mut rng, 40), wr_script(&mut rng, 40, false)));
        if !o.starts_with("ok") { or.fail(format!("setup failed: {o}"), log.replay_block(), "C09:setup".into()); continue; }
        let streams = role_streams(case.role);
        let mut active: Option<u8> = streams.first().copied();
        let mut delivered: std::collections::BTreeMap<u8, Vec<u8>> = Default::default();
        let mut eof_seen: Option<u8> = None;      // stream for which a 0-byte read (EOF) was returned
        let mut skipped: Vec<u8> = vec![];
        let mut wlog: Vec<u8> = vec![];
        let mut buffered: Vec<u8> = vec![];       // what fill_buf last showed and was not yet consumed
        let mut w_prev = field(&o, "w") == Some("true");
        if w_prev && streams.len() > 1 { or.fail("request with two input streams is writeable before any input was processed".into(), log.replay_block(), "C09:writeable-early".into()); }
        // bytes the parser can have seen so far (look-ahead + what the transport delivered), and where the first record of the
        // final stream ends its header on the wire: before that the earlier stream has neither ended nor been left by the client
        let mut fed = la;
        let final_hdr_end: Option<usize> = streams.last().and_then(|&fs| { let mut off = 0usize; for r in &case.recs { if r.rtype == fs && r.id == case.id { return Some(off + 8); } off += r.ser().len(); } None });
        let mut steps = 0; let mut idle = 0; let mut errored = false;
        let nsteps = 20 + rng.usize_below(150);
        while steps < nsteps && idle < 30 && !errored {
            steps += 1;
            let choice = rng.below(12);
            let o = match choice {
                0..=5 => {
                    let n = match rng.below(5) { 0 => 0, 1 => 1, _ => rng.usize_below(70) };
                    let o = ex(&mut log, &mut im, &format!("a.read {n}"));
                    // beyond the last stream (or for a role without input streams) the end-of-file is immediate and permanent
                    // (a poll may still be Pending while replies owed for buffered look-ahead are flushed; it never reads the transport)
                    let read_tr = field(&o, "ev").map_or(false, |ev| ev.split(|c| c == ',' || c == ';').any(|t| t.starts_with('R')));
                    if active.is_none() && buffered.is_empty() && !o.starts_with("ready 0") && (o.starts_with("err") || o.starts_with("ready") || read_tr) { or.fail(format!("poll_read({n}) with no active stream returned `{}` instead of an immediate end-of-file", &o[..o.len().min(40)]), log.replay_block(), "C09:none-not-eof".into()); }
                    if o.starts_with("ready") {
                        let k: usize = o.split(' ').nth(1).unwrap().parse().unwrap();
                        let data = unhex(o.split(' ').nth(2).unwrap());
                        if k != data.len() || k > n { or.fail(format!("poll_read({n}) returned {k} with {} data bytes", data.len()), log.replay_block(), "C09:read-count".into()); }
                        // buffered bytes (from fill_buf) come first
                        let from_buf = k.min(buffered.len()); buffered.drain(..from_buf);
                        if k > 0 { idle = 0; match active { Some(s) => delivered.entry(s).or_default().extend(&data[from_buf..]), None => or.fail("bytes returned although no stream is active".into(), log.replay_block(), "C09:data-none".into()) } }
                        else if n > 0 { if eof_seen.is_none() { eof_seen = active; idle = 0; } else { idle += 1; } }
                        if k > 0 && eof_seen.is_some() && eof_seen == active { or.fail("data returned after end-of-file was reported for the same stream".into(), log.replay_block(), "C09:eof-not-persistent".into()); }
                    } else { idle += 1; }
                    o
                }
                6 | 7 => {
                    let o = ex(&mut log, &mut im, "a.fill");
                    if o.starts_with("ready") {
                        let data = unhex(o.split(' ').nth(2).unwrap());
                        if !data.starts_with(&buffered) { or.fail("fill_buf no longer shows previously buffered, unconsumed bytes".into(), log.replay_block(), "C09:fill-prefix".into()); }
                        let newb = data[buffered.len().min(data.len())..].to_vec();
                        if !newb.is_empty() { idle = 0; if eof_seen.is_some() && eof_seen == active { or.fail("data returned after end-of-file was reported for the same stream".into(), log.replay_block(), "C09:eof-not-persistent".into()); }
                            match active { Some(s) => delivered.entry(s).or_default().extend(&newb), None => or.fail("bytes buffered although no stream is active".into(), log.replay_block(), "C09:data-none".into()) } }
                        else if data.is_empty() { if eof_seen.is_none() { eof_seen = active; } idle += 1; }
                        buffered = data;
                        let k = if rng.chance(2, 3) { buffered.len() } else { rng.usize_below(buffered.len() + 2) };
                        ex(&mut log, &mut im, &format!("a.consume {k}"));
                        buffered.drain(..k.min(buffered.len()));
                    } else { idle += 1; }
                    o
                }
                8 => {
                    // advance (after EOF) or skip early
                    let Some(cur) = active else { continue };
                    if eof_seen != Some(cur) && !rng.chance(1, 8) { continue; }
                    let idx = streams.iter().position(|&x| x == cur).unwrap();
                    let Some(&nx) = streams.get(idx + 1) else { continue };
                    if eof_seen != Some(cur) { skipped.push(cur); }
                    let o = ex(&mut log, &mut im, &format!("a.set_stream {nx}"));
                    if !o.starts_with("ok") { or.fail(format!("set_stream to the next stream failed: {o}"), log.replay_block(), "C09:set-stream".into()); }
                    active = Some(nx); eof_seen = None; buffered.clear(); idle = 0;
                    o
                }
                9 => {
                    // writeable(): poll to completion
                    let mut o = String::new(); let mut n = 0;
                    loop { o = ex(&mut log, &mut im, "a.writeable"); n += 1; if !o.starts_with("pending") || n > 200 { break; } wlog.extend(unhex(field(&o, "wd").unwrap_or("-")));
                        if let Some(e) = field(&o, "ev") { for x in e.split(',') { if let Some(rest) = x.strip_prefix('R') { if let Some((_, k)) = rest.split_once(':') { if let Ok(k) = k.parse::<usize>() { fed += k; } } } } } }
                    if o.starts_with("ready") {
                        // implicitly selects the final stream, discarding earlier ones
                        if let Some(&last) = streams.last() { if active != Some(last) { if let Some(c) = active { if eof_seen != Some(c) { skipped.push(c); } } active = Some(last); eof_seen = None; buffered.clear(); } }
                        if field(&o, "w") != Some("true") { or.fail("writeable() completed but is_writeable() is false".into(), log.replay_block(), "C09:writeable-false".into()); }
                    } else if o.starts_with("pending") { idle += 5; }
                    o
                }
                10 => {
                    let t = *rng.pick(&[T_STDOUT, T_STDERR, T_STDIN, T_DATA]);
                    let o = ex(&mut log, &mut im, &format!("a.open {t}"));
                    let should_ok = w_prev && (t == T_STDOUT || t == T_STDERR);
                    if o.starts_with('w') != should_ok { or.fail(format!("output_stream({t}) {} while is_writeable() = {w_prev}", if o.starts_with('w') { "handed out a writer" } else { "panicked" }), log.replay_block(), "C09:output-stream-gate".into()); }
                    if o.starts_with('w') { let i: usize = o[1..].split(' ').next().unwrap().parse().unwrap(); ex(&mut log, &mut im, &format!("a.drop {i}")); }
                    o
                }
                _ => { ex(&mut log, &mut im, "a.read 0") }
            };
            wlog.extend(unhex(field(&o, "wd").unwrap_or("-")));
            if o.starts_with("err") {
                errored = true;
                let kind = o.split(' ').nth(1).unwrap_or("");
                if !(kind == "eof" && endm == "eof") { or.fail(format!("async read failed with `{kind}` on well-formed traffic"), log.replay_block(), "C09:error".into()); }
            }
            if o.starts_with("panic") && choice != 10 { or.fail(format!("poll panicked: {o}"), log.replay_block(), "C09:panic".into()); errored = true; }
            // writeable gate
            if let Some(e) = field(&o, "ev") { for x in e.split(',') { if let Some(rest) = x.strip_prefix('R') { if let Some((_, k)) = rest.split_once(':') { if let Ok(k) = k.parse::<usize>() { fed += k; } } } } }
            if let Some(wf) = field(&o, "w") { if wf == "true" || wf == "false" {
                let wnow = wf == "true";
                if wnow && !w_prev && streams.len() > 1 { if final_hdr_end.map_or(true, |h| fed < h) { or.fail(format!("request became writeable after {fed} input bytes, before the first record of its final stream (header ends at byte {:?}) can have been seen: the earlier stream has neither ended nor been skipped past by the client", final_hdr_end), log.replay_block(), "C09:writeable-before-final-stream".into()); } }
                if w_prev && !wnow { or.fail("is_writeable() went from true to false".into(), log.replay_block(), "C09:writeable-not-monotone".into()); }
                if wnow && streams.len() > 1 && active != streams.last().copied() { or.fail(format!("request reports writeable while its active stream {active:?} is not the final one"), log.replay_block(), "C09:writeable-early".into()); }
                w_prev = wnow;
            } }
        }
        // Request::close from whatever state the polls above left the request in — in particular right after a read that was
        // polled once and abandoned while its reply flush was still parked on the output mutex.  No StreamWriter is alive here
        // (each one opened above was dropped at once), so close() may fail with a transport condition but never with "writers".
        if !errored && rng.chance(1, 2) {
            let mut waits = 0;
            for _ in 0..400 {
                let o = ex(&mut log, &mut im, "a.close complete 7");   // what close() writes (pending replies, epilogue) is the model's to match, not part of the replies ledger above
                if o.starts_with("err writers") { or.fail("Request::close failed with \"StreamWriter(s) not dropped\" although no StreamWriter is alive".into(), log.replay_block(), "C09:close-writers".into()); }
                if o.starts_with("panic") { or.fail(format!("Request::close panicked: {o}"), log.replay_block(), "C09:close-panic".into()); }
                if !o.starts_with("pending") { break; }
                if field(&o, "ev").map_or(false, |e| e.ends_with(":W")) { waits += 1; if waits >= 2 { break; } }
            }
            or.count("closed_after_reads");
        }
        // contents
        for (s, c) in &case.contents {
            let got = delivered.get(s).cloned().unwrap_or_default();
            if !c.starts_with(&got) { or.fail(format!("stream {s}: bytes returned by the async reads are not a prefix of what was sent ({} vs {} bytes)", got.len(), c.len()), log.replay_block(), "C09:not-prefix".into()); }
        }
        if let Some(s) = eof_seen { if !skipped.contains(&s) { let c = case.contents.iter().find(|(t, _)| *t == s).map(|(_, c)| c.clone()).unwrap_or_default(); let got = delivered.get(&s).cloned().unwrap_or_default();
            if got.len() != c.len() { or.fail(format!("stream {s}: end-of-file after {} of {} bytes", got.len(), c.len()), log.replay_block(), "C09:early-eof".into()); } } }
        for (s, got) in &delivered { if !case.contents.iter().any(|(t, _)| t == s) && !got.is_empty() { or.fail(format!("bytes of stream {s} returned, which the role does not have"), log.replay_block(), "C09:foreign".into()); } }
        // replies: whatever was written is a prefix of what is owed (each reply once, in order)
        if !case.expected_out.starts_with(&wlog) { or.fail(format!("bytes written for management replies ({}) are not a prefix of the replies owed ({})", wlog.len(), case.expected_out.len()), log.replay_block(), "C09:replies".into()); }
        or.eval((ci, &wire), case.contents.iter().any(|(_, c)| !c.is_empty()) || nl > 0);
        or.count(&format!("role={}", case.role));
        if ci == 1 { or.sample(format!("role {} buffer {b}, wire {} bytes, delivered {:?}, replies written {} of {}", case.role, wire.len(), delivered.iter().map(|(k, v)| (*k, v.len())).collect::<Vec<_>>(), wlog.len(), case.expected_out.len())); }
    }
    // reads while a writer holds the output lock: a StreamWriter whose transport write went Pending in mid-record keeps the connection
    // mutex across polls; a read that owes no reply does not need that mutex — with input ready it must deliver, not wait for the writer
    for ci in 0..ctx.n(120, 800) {
        if or.saturated() { break; }
        let mc = 1 + rng.usize_below(200);
        let case = loop { let c = gen_stream_case(&mut rng, 0, mc, false); if c.role != 3 && c.contents.first().map_or(false, |(_, d)| !d.is_empty()) { break c; } };
        let wire = ser_all(&case.recs);
        let b = *rng.pick(&[64usize, 128, 1024]);
        log.case(&format!("c09-lock-{ci}"));
        let first = 1 + rng.below(12);
        let o = ex(&mut log, &mut im, &format!("a.new {b} {mc} {} {} {} in={} end=pend rd=A wr={first},P,P,P,P,P,P,P,P,P,P,P,P fl=- la=0", case.id, case.role, case.flags, hexd(&wire)));
        if !o.starts_with("ok") { or.fail(format!("setup failed: {o}"), log.replay_block(), "C09:setup".into()); continue; }
        let t = if rng.chance(1, 2) { 6 } else { 7 };
        ex(&mut log, &mut im, &format!("a.open {t}"));
        let dl = 8 + rng.usize_below(40);
        let o = ex(&mut log, &mut im, &format!("a.wpoll 0 {}", hexd(&rng.bytes(dl))));
        if !o.starts_with("pending") { or.count("lock_case_writer_not_pending"); or.eval((ci, "lock"), false); continue; }
        let mut got: Vec<u8> = vec![]; let want = case.contents[0].1.clone(); let mut bad = false;
        for _ in 0..40 {
            let n = 1 + rng.usize_below(64);
            let o = ex(&mut log, &mut im, &format!("a.read {n}"));
            if o.starts_with("pending") {
                let read_pending = field(&o, "ev").map_or(false, |ev| ev.split(|c| c == ',' || c == ';').any(|t| t.starts_with('R') && t.ends_with(":P")));
                if !read_pending { or.fail(format!("poll_read({n}) is Pending although input is ready and no reply is owed — it waits for the output lock held by a stream writer"), log.replay_block(), "C09:read-waits-for-writer".into()); bad = true; break; }
            } else if o.starts_with("ready") {
                let data = unhex(o.split(' ').nth(2).unwrap_or("-")); if data.is_empty() { break; } got.extend(&data);
            } else { break; }
            if rng.chance(1, 4) { ex(&mut log, &mut im, &format!("a.wpoll 0 {}", hexd(&rng.bytes(dl)))); }
        }
        if !bad && !want.starts_with(&got) { or.fail("bytes read while a writer holds the output lock are not a prefix of the stream".into(), log.replay_block(), "C09:lock-not-prefix".into()); }
        if !bad && got.len() != want.len() { or.count("lock_case_incomplete_read"); }
        or.eval((ci, "lock"), true); or.count("reads_while_writer_holds_lock");
    }
    or.count_n("corr_ops", log.nops);
    log.finish();
    or.write(&ctx.dir);
}
