//! C15 — VarInt codec.  Correspondence ops + the finite-domain oracle on the real code.
use crate::util::*;
use crate::exec::{run as ex, Impl};
use fastcgi_server::protocol::varint::VarInt;
use std::io::ErrorKind;

const MAX: u32 = (1u32 << 31) - 1;


/// closed form stated by the property
fn spec_enc(v: u32) -> Vec<u8> {
    if v < 128 { vec![v as u8] } else { let b = v.to_be_bytes(); vec![b[0] | 0x80, b[1], b[2], b[3]] }
}

fn oracle_value(v: u32) -> Result<(), String> {
    let vi = VarInt::try_from(v).map_err(|_| format!("try_from({v}) rejected a value <= MAX"))?;
    if u32::from(vi) != v { return Err(format!("try_from({v}) holds {}", u32::from(vi))); }
    let mut buf = [0u8; 8];
    let mut w = &mut buf[..];
    let n = vi.write(&mut w).map_err(|e| format!("write({v}) failed: {e}"))?;
    let exp = spec_enc(v);
    if n != exp.len() || buf[..n] != exp[..] { return Err(format!("write({v}) = {} (count {n}), expected {}", hex(&buf[..n.min(8)]), hex(&exp))); }
    // decode with two trailing bytes: must consume exactly the encoding
    buf[n] = 0xAA; buf[n + 1] = 0x55;
    let mut cur = &buf[..n + 2];
    let back = VarInt::read(&mut cur).map_err(|e| format!("read(write({v})) failed: {e}"))?;
    if u32::from(back) != v || cur.len() != 2 { return Err(format!("read(write({v})) = {} leaving {} bytes (expected 2)", u32::from(back), cur.len())); }
    Ok(())
}

pub fn run(ctx: &mut Ctx) {
    let mut log = Log::new(&ctx.dir);
    let mut im = Impl::new();
    let mut or = Oracle::new("C15",
        "oracle: value domain walked (quick: boundaries + stride; thorough: all 2^31 values, all 2^32 u32 conversions); \
         correspondence: seeded values/byte strings, every op compared with the Lean model; a case is non-trivial when it \
         exercises the 4-byte form, a boundary (2^k, 2^k±1, 127/128, MAX) or an error; distinct by input");

    // ---------------- correspondence ops ----------------
    let mut vals: Vec<u32> = vec![0, 1, 62, 126, 127, 128, 129, 255, 256, 257, 65535, 65536, 16777215, 16777216, MAX - 1, MAX];
    for k in 0..31 { let p = 1u32 << k; vals.extend([p.wrapping_sub(1), p, p + 1]); }
    for lane in 0..4 { for pat in [0x01u32, 0x7f, 0x80, 0xff] { vals.push((pat << (8 * lane)) & MAX); } }
    let nrand = ctx.n(20_000, 2_000_000);
    log.case("values");
    let mut rng = ctx.rng.fork();
    for i in 0..(vals.len() as u64 + nrand) {
        let v = if (i as usize) < vals.len() { vals[i as usize] } else {
            match rng.below(4) { 0 => rng.below(256) as u32, 1 => rng.below(1 << 16) as u32, _ => (rng.next() as u32) & MAX }
        };
        let enc = ex(&mut log, &mut im, &format!("vi.enc {v}"));
        for k in 1..=3 { let o = ex(&mut log, &mut im, &format!("vi.encw {v} {k}")); if o != enc { or.fail(format!("VarInt::write through a writer accepting {k} byte(s) per call gives `{o}`, into a Vec `{enc}`"), log.replay_block(), format!("C15:dripw:{k}")); } }
        let mut e = spec_enc(v);
        e.extend(rng.bytes(rng.clone().usize_below(3)));
        let whole = ex(&mut log, &mut im, &format!("vi.dec {}", hexd(&e)));
        // the same bytes through readers that hand out 1, 2 or 3 bytes per call: same result
        for k in 1..=3 { let o = ex(&mut log, &mut im, &format!("vi.decr {} {k}", hexd(&e))); if o != whole { or.fail(format!("VarInt::read through a reader delivering {k} byte(s) per call gives `{o}`, from a contiguous slice `{whole}`"), log.replay_block(), format!("C15:drip:{k}")); } }
        or.eval(("v", v), v >= 128 || v == 127);
        if v >= 128 && i % 7 == 0 {
            // every truncation of the 4-byte encoding
            let e = spec_enc(v);
            for cut in 0..4 { ex(&mut log, &mut im, &format!("vi.dec {}", hexd(&e[..cut]))); ex(&mut log, &mut im, &format!("vi.decr {} 1", hexd(&e[..cut]))); or.eval(("t", v, cut), true); }
        }
    }
    log.case("conversions");
    let mut xs: Vec<u64> = vec![0, 127, 128, MAX as u64 - 1, MAX as u64, MAX as u64 + 1, u32::MAX as u64 - 1, u32::MAX as u64];
    for _ in 0..ctx.n(2000, 100_000) { xs.push(rng.next() & 0xffff_ffff); }
    for &x in &xs {
        ex(&mut log, &mut im, &format!("vi.u32 {x}"));
        or.eval(("u32", x), true);
    }
    let mut us: Vec<u64> = vec![0, 128, MAX as u64, MAX as u64 + 1, u32::MAX as u64, u32::MAX as u64 + 1, 1 << 40, u64::MAX - 1, u64::MAX];
    for _ in 0..ctx.n(2000, 100_000) { let sh = rng.below(64); us.push(rng.next() >> sh); }
    for &x in &us {
        ex(&mut log, &mut im, &format!("vi.usize {x}"));
        or.eval(("usize", x), true);
    }
    log.case("bytes");
    for b in 0..=255u8 { ex(&mut log, &mut im, &format!("vi.dec {}", hex(&[b]))); or.eval(("b1", b), true); }
    for _ in 0..ctx.n(5000, 200_000) {
        let n = rng.usize_below(7);
        let mut bs = rng.bytes(n);
        if n > 0 && rng.chance(1, 2) { bs[0] |= 0x80; }
        ex(&mut log, &mut im, &format!("vi.dec {}", hexd(&bs)));
        or.eval(("bs", bs.clone()), n > 0);
    }
    or.sample(format!("vi.enc 300 -> {}", im.exec("vi.enc 300")));
    or.sample(format!("vi.dec 8000012cff -> {}", im.exec("vi.dec 8000012cff")));
    or.sample(format!("vi.dec 8000 -> {}", im.exec("vi.dec 8000")));

    // ---------------- oracle on the real code (finite domain) ----------------
    let thorough = ctx.tier_thorough || ctx.widen;
    let threads = 16u32;
    let stride: u32 = if thorough { 1 } else { 128 }; // quick: 2^24 strided values + all boundaries
    let offs = (ctx.seed % stride as u64) as u32;
    let handles: Vec<_> = (0..threads).map(|t| std::thread::spawn(move || {
        let mut bad: Vec<(u32, String)> = vec![];
        let mut n = 0u64;
        let chunk = (1u64 << 31) / threads as u64;
        let lo = t as u64 * chunk; let hi = lo + chunk;
        let mut v = lo + offs as u64;
        while v < hi {
            n += 1;
            if let Err(e) = oracle_value(v as u32) { if bad.len() < 5 { bad.push((v as u32, e)); } }
            v += stride as u64;
        }
        (n, bad)
    })).collect();
    let mut walked = 0u64;
    for h in handles { let (n, bad) = h.join().unwrap(); walked += n; for (v, e) in bad { or.fail(e, format!("# case oracle\nvi.enc {v}\nvi.dec {}", hex(&spec_enc(v))), format!("value:{v}")); } }
    for &v in &vals { if let Err(e) = oracle_value(v) { or.fail(e, format!("# case oracle\nvi.enc {v}"), format!("value:{v}")); } }
    or.eval_bulk(walked, walked - 128u64.div_ceil(stride as u64).min(walked), "values");
    or.count_n("oracle_values_walked", walked);
    if thorough { or.exhaustive.push("all 2^31 values: write closed form, read(write v)=v, exact consumption".into()); }

    // conversions: ok iff <= MAX
    let cstride: u64 = if thorough { 1 } else { 256 };
    let handles: Vec<_> = (0..threads as u64).map(|t| std::thread::spawn(move || {
        let chunk = (1u64 << 32) / 16; let lo = t * chunk; let hi = lo + chunk;
        let mut bad = vec![]; let mut n = 0u64; let mut x = lo;
        while x < hi {
            n += 1;
            let ok = match VarInt::try_from(x as u32) { Ok(v) => u32::from(v) as u64 == x, Err(_) => false };
            if ok != (x <= MAX as u64) && bad.len() < 5 { bad.push(x); }
            let oku = match VarInt::try_from(x as usize) { Ok(v) => u32::from(v) as u64 == x, Err(_) => false };
            if oku != (x <= MAX as u64) && bad.len() < 5 { bad.push(x); }
            x += cstride;
        }
        (n, bad)
    })).collect();
    let mut cw = 0;
    for h in handles { let (n, bad) = h.join().unwrap(); cw += n; for x in bad { or.fail(format!("try_from({x}) acceptance differs from x <= MAX"), format!("# case oracle\nvi.u32 {x}\nvi.usize {x}"), format!("conv:{x}")); } }
    for x in [MAX as u64, MAX as u64 + 1, u32::MAX as u64] {
        let ok = VarInt::try_from(x as u32).is_ok();
        if ok != (x <= MAX as u64) { or.fail(format!("try_from({x}) acceptance wrong"), format!("# case oracle\nvi.u32 {x}"), format!("conv:{x}")); }
    }
    for x in [u32::MAX as u64 + 1, 1u64 << 40, u64::MAX] {
        if VarInt::try_from(x as usize).is_ok() { or.fail(format!("try_from(usize {x}) accepted"), format!("# case oracle\nvi.usize {x}"), format!("conv:{x}")); }
    }
    or.eval_bulk(cw, cw, "conversions");
    or.count_n("oracle_conversions_walked", cw);
    if thorough { or.exhaustive.push("all 2^32 u32 conversions (and the same values as usize)".into()); }

    // all 256 single bytes; truncations; non-canonical 4-byte encodings (high bit set, value < 128 etc.)
    for b in 0..=255u8 {
        let r = im.exec(&format!("vi.dec {}", hex(&[b])));
        let exp = if b < 128 { format!("ok {b} 0") } else { "eof".to_string() };
        if r != exp { or.fail(format!("read([{b:#x}]) = {r}, expected {exp}"), format!("# case oracle\nvi.dec {}", hex(&[b])), format!("byte:{b}")); }
    }
    or.eval_bulk(256, 256, "single-bytes");
    or.exhaustive.push("all 256 one-byte inputs".into());
    let fstride: u64 = if thorough { 1 } else { 4099 };
    let handles: Vec<_> = (0..16u64).map(|t| std::thread::spawn(move || {
        let chunk = (1u64 << 31) / 16; let lo = t * chunk; let hi = lo + chunk;
        let mut bad = vec![]; let mut n = 0u64; let mut x = lo + (t * 7 % fstride);
        while x < hi {
            n += 1;
            let b = (x as u32).to_be_bytes();
            let e = [b[0] | 0x80, b[1], b[2], b[3], 0x99];
            let mut cur = &e[..];
            let ok = match VarInt::read(&mut cur) { Ok(v) => u32::from(v) as u64 == x && cur.len() == 1, Err(_) => false };
            if !ok && bad.len() < 5 { bad.push(e.to_vec()); }
            if n % 64 == 0 {
                for cut in 1..4 { let mut c = &e[..cut]; match VarInt::read(&mut c) { Err(er) if er.kind() == ErrorKind::UnexpectedEof => {}, _ => { if bad.len() < 5 { bad.push(e[..cut].to_vec()); } } } }
            }
            x += fstride;
        }
        (n, bad)
    })).collect();
    let mut fw = 0;
    for h in handles { let (n, bad) = h.join().unwrap(); fw += n; for e in bad { or.fail(format!("read({}) wrong", hex(&e)), format!("# case oracle\nvi.dec {}", hex(&e)), format!("dec:{}", hex(&e))); } }
    or.eval_bulk(fw, fw, "four-byte-encodings");
    or.count_n("oracle_four_byte_encodings_walked", fw);
    if thorough { or.exhaustive.push("all 2^31 four-byte encodings incl. non-canonical ones".into()); }

    // From<u8>/From<u16> (always in range) and Display (decimal of the value): oracle only
    for v in (0..=65535u32).step_by(if thorough { 1 } else { 257 }).chain([127, 128, 255, 256, 65535]) {
        let a = VarInt::from(v as u16);
        if u32::from(a) != v || a.to_string() != v.to_string() { or.fail(format!("VarInt::from({v}u16) = {} (Display `{a}`)", u32::from(a)), format!("# case flat-oracle\nvi.u32 {v}"), format!("from-u16:{v}")); }
        if v < 256 { let b = VarInt::from(v as u8); if u32::from(b) != v { or.fail(format!("VarInt::from({v}u8) = {}", u32::from(b)), format!("# case flat-oracle\nvi.u32 {v}"), format!("from-u8:{v}")); } }
    }
    or.count_n("corr_ops", log.nops);
    log.finish();
    or.write(&ctx.dir);
}
