//! Stream-parser family: C02 (stream extraction), C18 (sequencing), C05 (hand-offs) and the stream-parser
//! halves of C03 / C04.
use crate::exec::{run as ex, Impl};
use crate::gen::*;
use crate::util::*;
use std::collections::BTreeMap;

fn field<'a>(obs: &'a str, key: &str) -> Option<&'a str> {
    obs.split(' ').find_map(|t| t.strip_prefix(key).and_then(|r| r.strip_prefix('=')))
}

pub fn role_streams(role: u16) -> &'static [u8] { match role { 1 => &[T_STDIN], 3 => &[T_STDIN, T_DATA], _ => &[] } }

/// Mirror of the stream parser's public observables + the oracle's bookkeeping.
pub struct Drv {
    pub free: usize,
    pub buf: Vec<u8>,
    pub outbuf: Vec<u8>,
    pub boundary: bool,
    pub active: Option<u8>,
    /// all bytes the parser emitted toward the client so far (consumed or not)
    pub emitted: Vec<u8>,
    /// bytes delivered per stream type (into dest, or appended to the internal buffer)
    pub delivered: BTreeMap<u8, Vec<u8>>,
    pub last_end: bool,
    pub last_err: Option<String>,
    pub panicked: bool,
    pub prop: String,
    pub calls: usize,
}
impl Drv {
    pub fn from_into_stream(obs: &str, prop: &str) -> Option<Drv> {
        if !obs.starts_with("ok ") { return None; }
        let mut d = Drv { free: 0, buf: vec![], outbuf: vec![], boundary: true, active: None, emitted: vec![], delivered: BTreeMap::new(), last_end: false, last_err: None, panicked: false, prop: prop.into(), calls: 0 };
        d.absorb_state(obs);
        Some(d)
    }
    fn absorb_state(&mut self, obs: &str) {
        self.free = field(obs, "free").and_then(|x| x.parse().ok()).unwrap_or(0);
        self.buf = unhex(field(obs, "buf").unwrap_or("-"));
        self.outbuf = unhex(field(obs, "outbuf").unwrap_or("-"));
        self.boundary = field(obs, "boundary") == Some("true");
        self.active = field(obs, "active").and_then(|x| x.parse().ok());
    }
    /// `parse(new, dest)`; returns false on Err / panic.
    pub fn parse(&mut self, log: &mut Log, im: &mut Impl, or: &mut Oracle, new: &[u8], dest: Option<usize>) -> bool {
        let old_buf = self.buf.clone(); let old_out = self.outbuf.clone(); let act = self.active;
        let o = ex(log, im, &format!("str.parse {} {}", hexd(new), dest.map_or("none".to_string(), |d| d.to_string())));
        self.calls += 1;
        if o == "panic" { self.panicked = true; or.fail("stream parser panicked".into(), log.replay_block(), format!("{}:str-panic", self.prop)); return false; }
        self.absorb_state(&o);
        // output bookkeeping: the buffer only grows at its tail
        if !self.outbuf.starts_with(&old_out) { or.fail("output_buffer lost or reordered bytes during parse".into(), log.replay_block(), format!("{}:outbuf-prefix", self.prop)); }
        let growth = self.outbuf[old_out.len().min(self.outbuf.len())..].to_vec();
        self.emitted.extend(&growth);
        if o.starts_with("err ") {
            self.last_err = o.split(' ').nth(1).map(|s| s.to_string()); self.last_end = false;
            // a failing call reports no Status, but what it appended to stream_buffer() is readable there
            if dest.is_none() && self.buf.starts_with(&old_buf) && self.buf.len() > old_buf.len() {
                if let Some(s) = act { self.delivered.entry(s).or_default().extend(&self.buf[old_buf.len()..]); }
            }
            return false;
        }
        self.last_err = None;
        let n: usize = field(&o, "stream").and_then(|x| x.parse().ok()).unwrap_or(0);
        let outn: usize = field(&o, "out").and_then(|x| x.parse().ok()).unwrap_or(usize::MAX);
        self.last_end = field(&o, "end") == Some("true");
        // "beyond the last stream the active stream is 'none' permanently": with no active stream every successful call reports the end
        if act.is_none() && !self.last_end { or.fail("parse() with no active stream did not report end-of-stream".into(), log.replay_block(), format!("{}:none-not-ended", self.prop)); }
        if outn != growth.len() { or.fail(format!("Status.output = {outn} but output_buffer grew by {} bytes", growth.len()), log.replay_block(), format!("{}:output-count", self.prop)); }
        let data: Vec<u8> = if dest.is_some() { unhex(field(&o, "data").unwrap_or("-")) } else {
            if !self.buf.starts_with(&old_buf) || self.buf.len() != old_buf.len() + n { or.fail(format!("stream_buffer did not grow by exactly Status.stream = {n} bytes at its tail"), log.replay_block(), format!("{}:stream-count", self.prop)); vec![] }
            else { self.buf[old_buf.len()..].to_vec() }
        };
        if dest.is_some() && (data.len() != n || !self.buf.is_empty()) { or.fail(format!("Status.stream = {n} but {} bytes were written to dest", data.len()), log.replay_block(), format!("{}:stream-count", self.prop)); }
        if !data.is_empty() {
            match act { Some(s) => self.delivered.entry(s).or_default().extend(&data),
                        None => or.fail("stream data delivered although the active stream is none".into(), log.replay_block(), format!("{}:data-while-none", self.prop)) }
        }
        true
    }
    pub fn simple(&mut self, log: &mut Log, im: &mut Impl, op: &str) -> String { let o = ex(log, im, op); if o.contains("free=") { self.absorb_state(&o); } o }
    pub fn consume_output_all(&mut self, log: &mut Log, im: &mut Impl) { if !self.outbuf.is_empty() { let n = self.outbuf.len(); self.simple(log, im, &format!("str.consume_output {n}")); } }
}

pub struct StreamCase {
    pub id: u16, pub role: u16, pub flags: u8,
    pub contents: Vec<(u8, Vec<u8>)>,       // per stream of the role, in order
    pub recs: Vec<Rec>,
    pub expected_out: Vec<u8>,
}

pub fn gen_stream_case(rng: &mut Rng, noise_level: u64, mc: usize, big: bool) -> StreamCase {
    let id = rng.range(1, 65535) as u16;
    let role = rng.range(1, 3) as u16;
    let mut contents = vec![]; let mut recs = vec![]; let mut exp = vec![];
    let streams = role_streams(role);
    for (i, &s) in streams.iter().enumerate() {
        let len = if big && i == 0 { *rng.pick(&[65535usize, 65536, 70000, 131070]) } else { match rng.below(6) { 0 => 0, 1 => 1 + rng.usize_below(8), 2 => rng.usize_below(40), _ => rng.usize_below(400) } };
        let c = rng.bytes(len);
        // for a Filter the Stdin terminator may be omitted: the first Data record then ends Stdin
        let terminate = !(role == 3 && i == 0 && rng.chance(1, 4));
        recs.extend(build_stream(rng, id, s, &c, noise_level, mc, &mut exp, terminate));
        contents.push((s, c));
    }
    // trailing noise after the last stream
    while noise_level > 0 && rng.chance(noise_level, 14) { let r = noise_stream(rng, Phase::Active(id)); exp.extend(spec_owed(Phase::Active(id), &r, mc)); recs.push(r); }
    StreamCase { id, role, flags: rng.next() as u8, contents, recs, expected_out: exp }
}

/// Brings up a stream parser for (id, role, flags) through the request parser, as the API requires.
/// `lookahead` bytes of the following wire are fed together with the preamble.
pub fn start_stream_parser(log: &mut Log, im: &mut Impl, b: usize, mc: usize, id: u16, role: u16, flags: u8, lookahead: &[u8], prop: &str) -> Option<Drv> {
    let o = ex(log, im, &format!("req.new {b} {mc}"));
    let free: usize = field(&o, "free").and_then(|x| x.parse().ok()).unwrap_or(0);
    let mut pre = ser_all(&[begin(id, role, flags, vec![]), Rec::new(T_PARAMS, id, vec![], vec![])]);
    let la = lookahead.len().min(free.saturating_sub(pre.len()));
    pre.extend(&lookahead[..la]);
    ex(log, im, &format!("req.feed {}", hexd(&pre)));
    // without look-ahead the stream parser may as well be built by the public constructor stream::Parser::new
    let via_new = la == 0 && (id as usize + b + mc) % 4 == 0;
    let o = if via_new { let o = ex(log, im, &format!("req.to_stream_new {b} {mc}")); match o.find(" left=") { Some(i) => o[..i].to_string(), None => o } } else { ex(log, im, "req.into_stream") };
    let mut d = Drv::from_into_stream(&o, prop)?;
    d.calls = la;   // number of look-ahead bytes consumed from the wire
    Some(d)
}

#[derive(Clone, Copy, PartialEq)]
pub enum Mode { Dest, Internal, Mixed }

/// Random legal schedule of caller actions over `wire`; advances through the role's streams when an end is
/// reported (`advance`), optionally skipping a stream early.  Returns per-stream (delivered, end_reported, skipped_early).
pub fn drive_schedule(log: &mut Log, im: &mut Impl, or: &mut Oracle, rng: &mut Rng, d: &mut Drv, wire: &[u8], mut pos: usize, role: u16,
                      mode: Mode, allow_early_skip: bool, max_dest: usize) -> BTreeMap<u8, (bool, bool)> {
    let streams = role_streams(role);
    let mut flags: BTreeMap<u8, (bool, bool)> = BTreeMap::new();   // stream -> (end reported, skipped early)
    let mut idle = 0;
    let mut steps = 0usize;
    loop {
        steps += 1;
        if steps > 200_000 + wire.len() * 4 { or.fail("schedule did not terminate (no progress)".into(), log.replay_block(), format!("{}:no-progress", d.prop)); break; }
        if d.panicked || d.last_err.is_some() { break; }
        // if an end was reported for the active stream: advance (now or a little later)
        if d.last_end {
            if let Some(s) = d.active { flags.entry(s).or_insert((false, false)).0 = true; }
            if d.active.is_none() { break; }
            if rng.chance(2, 3) {
                // sometimes re-select the current stream first: must keep buffered data
                if rng.chance(1, 6) { let keep = d.buf.clone(); let o = d.simple(log, im, &format!("str.set_stream {}", d.active.unwrap()));
                    if !o.starts_with("ok") || d.buf != keep { or.fail("re-selecting the current stream lost buffered data or was rejected".into(), log.replay_block(), format!("{}:reselect", d.prop)); } }
                // consume what is buffered before advancing (it belongs to the finished stream and was already counted as delivered)
                let cur = d.active.unwrap();
                let idx = streams.iter().position(|&x| x == cur).unwrap_or(streams.len());
                let next = streams.get(idx + 1).copied();
                let o = d.simple(log, im, &format!("str.set_stream {}", next.map_or("none".to_string(), |n| n.to_string())));
                if !o.starts_with("ok") { or.fail(format!("advancing to the next stream was rejected: {o}"), log.replay_block(), format!("{}:advance-rejected", d.prop)); break; }
                if !d.buf.is_empty() { or.fail("stream_buffer not emptied by selecting a different stream".into(), log.replay_block(), format!("{}:discard", d.prop)); }
                d.last_end = false;
                // re-dispatch the held header
                let dest = if mode == Mode::Dest || (mode == Mode::Mixed && rng.chance(1, 2)) { Some(rng.usize_below(max_dest + 1)) } else { None };
                if !d.parse(log, im, or, &[], dest) { break; }
                continue;
            }
        }
        // a selection the role does not allow (Data for a Responder) or that goes backwards (Stdin while a Filter is on Data): it
        // must be rejected and change nothing — whatever the parser is in the middle of
        if d.active.is_some() && rng.chance(1, 25) {
            let cur = d.active.unwrap();
            let bad: Option<u8> = match (role, cur) { (1, 5) => Some(8), (3, 8) => Some(5), _ => None };
            if let Some(sb) = bad {
                let (keep_buf, keep_end) = (d.buf.clone(), d.last_end);
                let o = d.simple(log, im, &format!("str.set_stream {sb}"));
                d.last_end = keep_end;
                if o.starts_with("ok") { or.fail(format!("set_stream({sb}) was accepted for role {role} with stream {cur} active"), log.replay_block(), format!("{}:bad-select-accepted", d.prop)); break; }
                if d.buf != keep_buf || d.active != Some(cur) { or.fail(format!("a rejected set_stream({sb}) changed the active stream or its buffered data"), log.replay_block(), format!("{}:rejected-select-changed-state", d.prop)); }
                or.count("rejected_selections");
                continue;
            }
        }
        // early skip of the current stream
        if allow_early_skip && d.active.is_some() && !d.last_end && rng.chance(1, 60) {
            let cur = d.active.unwrap();
            let idx = streams.iter().position(|&x| x == cur).unwrap_or(streams.len());
            let next = streams.get(idx + 1).copied();
            flags.entry(cur).or_insert((false, false)).1 = true;
            let o = d.simple(log, im, &format!("str.set_stream {}", next.map_or("none".to_string(), |n| n.to_string())));
            if !o.starts_with("ok") { or.fail(format!("skipping forward was rejected: {o}"), log.replay_block(), format!("{}:advance-rejected", d.prop)); break; }
            continue;
        }
        let remaining = wire.len() - pos;
        if remaining == 0 {
            // deterministic drain: productive parse calls until nothing moves any more
            if !d.buf.is_empty() { let n = d.buf.len(); d.simple(log, im, &format!("str.consume {n}")); }
            let dest = if mode == Mode::Internal { None } else { Some(max_dest.max(1)) };
            let before = (d.delivered.values().map(|v| v.len()).sum::<usize>(), d.free, d.buf.len(), d.boundary);
            if !d.parse(log, im, or, &[], dest) { break; }
            let after = (d.delivered.values().map(|v| v.len()).sum::<usize>(), d.free, d.buf.len(), d.boundary);
            if d.last_end { continue; }
            if before == after { d.simple(log, im, "str.compress"); idle += 100; if idle >= 200 { break; } } else { idle = 0; }
            continue;
        }
        // choose an action
        let r = rng.below(16);
        if d.free == 0 && d.buf.is_empty() && remaining > 0 && r > 2 {
            // raw data fills the buffer: compress or parse without new input
            if rng.chance(1, 2) { d.simple(log, im, "str.compress"); } else { let dest = if mode != Mode::Internal { Some(1 + rng.usize_below(max_dest.max(1))) } else { None }; if !d.parse(log, im, or, &[], dest) { break; } }
            idle += 1;
            if idle > 50 { or.fail("no input space and no progress: stream parser is stuck".into(), log.replay_block(), format!("{}:stuck", d.prop)); break; }
            continue;
        }
        match r {
            0 => { if !d.buf.is_empty() { let k = rng.usize_below(d.buf.len() + 3); d.simple(log, im, &format!("str.consume {k}")); } }
            1 => { d.simple(log, im, "str.compress"); }
            2 => { if !d.outbuf.is_empty() { let k = rng.usize_below(d.outbuf.len() + 2); d.simple(log, im, &format!("str.consume_output {k}")); } }
            _ => {
                // a parse call
                let want_dest = match mode { Mode::Dest => true, Mode::Internal => false, Mode::Mixed => rng.chance(1, 2) };
                if want_dest && !d.buf.is_empty() { let n = d.buf.len(); d.simple(log, im, &format!("str.consume {n}")); }
                if d.free == 0 { d.simple(log, im, "str.compress"); }
                let n = if remaining == 0 { 0 } else { match rng.below(6) { 0 => 0, 1 => 1, 2 => d.free, _ => 1 + rng.usize_below(remaining.min(d.free.max(1)).min(200)) } }.min(d.free).min(remaining);
                let dest = if want_dest { Some(match rng.below(5) { 0 => 0, 1 => 1, _ => rng.usize_below(max_dest + 1) }) } else { None };
                let before = (pos, d.delivered.values().map(|v| v.len()).sum::<usize>(), d.free, d.buf.len());
                if !d.parse(log, im, or, &wire[pos..pos + n], dest) { break; }
                pos += n;
                let after = (pos, d.delivered.values().map(|v| v.len()).sum::<usize>(), d.free, d.buf.len());
                if before == after && !d.last_end { idle += 1; } else { idle = 0; }
                // internal buffer full of parsed data: the caller must consume
                if d.free == 0 && !d.buf.is_empty() { let n = d.buf.len(); d.simple(log, im, &format!("str.consume {n}")); d.simple(log, im, "str.compress"); }
            }
        }
        if idle > 400 { or.fail("no progress although input remains".into(), log.replay_block(), format!("{}:stuck", d.prop)); break; }
    }
    d.calls = pos;
    flags
}

/// Specification-side delivery for an arbitrary record sequence under the policy "advance to the next stream
/// exactly when the current one ends" (no early skips): bytes per stream.
pub fn spec_deliver(role: u16, id: u16, recs: &[Rec]) -> BTreeMap<u8, Vec<u8>> {
    let streams = role_streams(role);
    let mut idx = 0usize;   // index into streams; == len means none
    let mut out: BTreeMap<u8, Vec<u8>> = BTreeMap::new();
    for r in recs {
        if !(r.rtype == T_STDIN || r.rtype == T_DATA) || r.id != id { continue; }
        loop {
            if idx >= streams.len() { break; }   // none: everything ignored
            let active = streams[idx];
            let pos_r = streams.iter().position(|&x| x == r.rtype);
            match pos_r {
                None => break,                                   // not a stream of this role: skipped
                Some(p) if p < idx => break,                     // earlier stream: skipped
                Some(p) if p == idx => { if r.content.is_empty() { idx += 1; continue; } out.entry(active).or_default().extend(&r.content); break; }
                Some(_) => { idx += 1; continue; }               // later stream: ends the current one, re-dispatched
            }
        }
    }
    out
}

// =====================================================================================================  C02
pub fn run_c02(ctx: &mut Ctx) {
    let mut log = Log::new(&ctx.dir);
    let mut im = Impl::new();
    let mut or = Oracle::new("C02",
        "all 3 roles; stream contents from empty to multi-record incl. 65535-byte records (every 23rd case); record segmentation and padding 0..255 anywhere; interleaved GetValues / unknown-type / stale Params / duplicate+foreign BeginRequest / foreign-id stream records; \
         buffer sizes from 24; random legal schedules of parse(dest=Some(0..n)) / parse(dest=None) / consume_stream(k) / compress / consume_output(k) / set_stream, 5-60+ ops each; oracle compares delivered CONTENTS per stream with what was sent and checks end-of-stream exactness. \
         Non-trivial: some stream has content or noise is present; distinct by (records, buffer, schedule seed)");
    let mut rng = ctx.rng.fork();
    for ci in 0..ctx.n(700, 3_000) {
        if or.saturated() { or.count("stopped_early_saturated"); break; }
        let big = ci % 23 == 7;
        let mc = 1 + rng.usize_below(500);
        let nl = rng.below(6);
        let case = gen_stream_case(&mut rng, nl, mc, big);
        let wire = ser_all(&case.recs);
        let b = if big { *rng.pick(&[24usize, 4096, 65536, 70_000]) } else { *rng.pick(&[24usize, 24, 32, 40, 64, 128, 300, 8192]) };
        let mode = *rng.pick(&[Mode::Dest, Mode::Internal, Mode::Mixed]);
        log.case(&format!("c02-{ci}"));
        let la = if rng.chance(1, 2) { rng.usize_below(wire.len() + 1) } else { 0 };
        let Some(mut d) = start_stream_parser(&mut log, &mut im, b, mc, case.id, case.role, case.flags, &wire[..la], "C02") else { or.fail("could not create the stream parser".into(), log.replay_block(), "C02:setup".into()); continue; };
        let pos = d.calls;
        let early = rng.chance(1, 5);
        // 64 KiB records with 1- or 7-byte destinations only multiply the op count (and would exhaust the step cap of the schedule)
        let max_dest = if big { *rng.pick(&[64usize, 500, 4096, 70_000]) } else { *rng.pick(&[1usize, 7, 64, 500]) };
        let flags = drive_schedule(&mut log, &mut im, &mut or, &mut rng, &mut d, &wire, pos, case.role, mode, early, max_dest);
        or.count(&format!("role={}", case.role)); or.count(match mode { Mode::Dest => "mode=dest", Mode::Internal => "mode=internal", Mode::Mixed => "mode=mixed" });
        if d.panicked { continue; }
        if let Some(e) = &d.last_err { or.fail(format!("well-formed stream records made parse fail with {e}"), log.replay_block(), "C02:error".into()); continue; }
        for (s, content) in &case.contents {
            let got = d.delivered.get(s).cloned().unwrap_or_default();
            let (ended, skipped) = flags.get(s).copied().unwrap_or((false, false));
            if !content.starts_with(&got) {
                let k = got.iter().zip(content.iter()).position(|(a, b)| a != b).unwrap_or(content.len().min(got.len()));
                or.fail(format!("stream {s}: delivered bytes are not a prefix of what was sent (delivered {} bytes, sent {}, first difference at {k})", got.len(), content.len()), log.replay_block(), "C02:not-prefix".into());
            } else if ended && !skipped && got.len() != content.len() {
                or.fail(format!("stream {s}: end-of-stream reported after {} of {} bytes", got.len(), content.len()), log.replay_block(), "C02:early-end".into());
            } else if !skipped && !ended && d.calls == wire.len() {
                or.fail(format!("stream {s}: all records were fed and parsed but end-of-stream was never reported ({} of {} bytes delivered)", got.len(), content.len()), log.replay_block(), "C02:no-end".into());
            }
        }
        for (s, got) in &d.delivered { if !case.contents.iter().any(|(t, _)| t == s) && !got.is_empty() { or.fail(format!("bytes delivered for stream {s} which the role does not have"), log.replay_block(), "C02:foreign-stream".into()); } }
        or.eval((&wire, b, ci), case.contents.iter().any(|(_, c)| !c.is_empty()) || nl > 0);
        if ci == 2 { or.sample(format!("role {} buffer {b} wire {} bytes, {} records, delivered {:?}", case.role, wire.len(), case.recs.len(), d.delivered.iter().map(|(k, v)| (*k, v.len())).collect::<Vec<_>>())); }
    }
    or.count_n("corr_ops", log.nops);
    log.finish();
    or.write(&ctx.dir);
}

// =====================================================================================================  C18
pub fn run_c18(ctx: &mut Ctx) {
    let mut log = Log::new(&ctx.dir);
    let mut im = Impl::new();
    let mut or = Oracle::new("C18",
        "tables: all roles x (none + every record type) for next_input_stream against the documented find-then-next iterator; selections: all 3 roles x all current selections x all 12 requested selections, decided exhaustively incl. 'change nothing' on rejection and 'keeps buffered data' on re-selection; \
         data flow: record sequences containing every stream type in every order with matching and foreign ids, walked with the advance-at-end policy and compared with the specification-side delivery. Non-trivial: all; distinct by case");
    let mut rng = ctx.rng.fork();
    crate::exec::witness_corpus(&["C18_"], &mut log, &mut im, &mut or);
    log.case("flat-tables");
    for role in 1..=3u16 {
        ex(&mut log, &mut im, &format!("role.streams {role}"));
        let streams = role_streams(role);
        let mut curs: Vec<Option<u8>> = vec![None]; curs.extend(streams.iter().map(|&s| Some(s)));
        for cur in curs {
            let o = ex(&mut log, &mut im, &format!("role.next {role} {}", cur.map_or("none".to_string(), |c| c.to_string())));
            // the documented equivalence: iterator find-then-next
            let mut it = streams.iter().copied();
            if let Some(c) = cur { it.find(|&s| s == c); }
            let exp = it.next().map_or("none".to_string(), |s| s.to_string());
            if o != exp { or.fail(format!("next_input_stream(role {role}, {cur:?}) = {o}, documented equivalent gives {exp}"), format!("# case flat-oracle\nrole.next {role} {}", cur.map_or("none".to_string(), |c| c.to_string())), format!("C18:next:{role}:{cur:?}")); }
            or.eval(("next", role, cur), true);
        }
    }
    or.exhaustive.push("next_input_stream for all roles x all valid current streams".into());
    // --- selections
    for role in 1..=3u16 {
        let streams = role_streams(role);
        let mut currents: Vec<Option<u8>> = streams.iter().map(|&s| Some(s)).collect(); currents.push(None);
        for (ci, cur) in currents.iter().enumerate() {
            for req in std::iter::once(None).chain((1..=11u8).map(Some)) {
                log.case(&format!("c18-sel-{role}-{ci}-{req:?}"));
                // some buffered data of the current stream + raw data behind it
                let content = rng.bytes(20);
                let mut recs = vec![];
                if let Some(c) = cur { recs.push(Rec::new(*c, 77, content.clone(), vec![])); }
                recs.push(Rec::new(T_GETVALUES, 0, nv_enc(b"FCGI_MAX_REQS", b""), vec![]));
                let wire = ser_all(&recs);
                let Some(mut d) = start_stream_parser(&mut log, &mut im, 128, 3, 77, role, 0, &[], "C18") else { continue };
                // walk to the current selection
                for i in 0..ci { let nx = currents[i + 1]; let _ = i; d.simple(&mut log, &mut im, &format!("str.set_stream {}", nx.map_or("none".to_string(), |n| n.to_string()))); }
                if d.active != *cur { or.fail(format!("could not reach selection {cur:?} for role {role}"), log.replay_block(), "C18:walk".into()); continue; }
                d.parse(&mut log, &mut im, &mut or, &wire, None);
                let before = (d.buf.clone(), d.outbuf.clone(), d.free, d.boundary, d.active);
                let peek_before = ex(&mut log, &mut im, "str.peek_input");
                let o = d.simple(&mut log, &mut im, &format!("str.set_stream {}", req.map_or("none".to_string(), |n| n.to_string())));
                let after = (d.buf.clone(), d.outbuf.clone(), d.free, d.boundary, d.active);
                let peek_after = ex(&mut log, &mut im, "str.peek_input");
                // specification: accepted iff none, or same, or strictly later in the role's order
                let pos = |s: u8| streams.iter().position(|&x| x == s);
                let accept = match (req, cur) {
                    (None, _) => true,
                    (Some(r), Some(c)) => r == *c || matches!((pos(r), pos(*c)), (Some(a), Some(b)) if a > b),
                    (Some(_), None) => false,
                };
                let accepted = o.starts_with("ok");
                if accepted != accept { or.fail(format!("role {role}, current {cur:?}, requested {req:?}: {} (specification: {})", if accepted { "accepted" } else { "rejected" }, if accept { "accept" } else { "reject" }), log.replay_block(), format!("C18:select:{role}:{cur:?}:{req:?}")); }
                if !accepted && (before != after || peek_before != peek_after) { or.fail(format!("rejected selection {req:?} changed the parser (role {role}, current {cur:?})"), log.replay_block(), "C18:reject-changed".into()); }
                if accepted && req == *cur && before != after { or.fail(format!("re-selecting the current stream {cur:?} changed buffered data"), log.replay_block(), "C18:reselect-changed".into()); }
                if accepted && req != *cur && (d.active != req || !d.buf.is_empty()) { or.fail(format!("selection {req:?} accepted but active = {:?}, {} bytes still buffered", d.active, d.buf.len()), log.replay_block(), "C18:select-effect".into()); }
                or.eval(("sel", role, *cur, req), true);
            }
        }
    }
    or.exhaustive.push("3 roles x all current selections x all 12 requested selections".into());
    // --- data flow with every stream type in every order
    for ci in 0..ctx.n(500, 10_000) {
        if or.saturated() { or.count("stopped_early_saturated"); break; }
        let role = rng.range(1, 3) as u16;
        let id = rng.range(1, 65535) as u16;
        let mc = 5;
        let n = 1 + rng.usize_below(9);
        let mut recs = vec![];
        for _ in 0..n {
            let t = *rng.pick(&[T_STDIN, T_STDIN, T_DATA, T_DATA, T_PARAMS, T_GETVALUES, T_STDOUT, 0x42]);
            let rid = if rng.chance(4, 5) { id } else if rng.chance(1, 3) { 0 } else { id ^ 1 };
            let rid = if t == T_GETVALUES { 0 } else { rid };
            let len = if rng.chance(1, 4) { 0 } else { 1 + rng.usize_below(30) };
            let content = if t == T_GETVALUES { gv_body(&mut rng, 40) } else { rng.bytes(len) };
            recs.push(Rec::new(t, rid, content, pad_bytes(&mut rng)));
        }
        let wire = ser_all(&recs);
        log.case(&format!("c18-flow-{ci}"));
        let b = *rng.pick(&[24usize, 64, 256]);
        let Some(mut d) = start_stream_parser(&mut log, &mut im, b, mc, id, role, 0, &[], "C18") else { continue };
        let mode = *rng.pick(&[Mode::Dest, Mode::Internal, Mode::Mixed]);
        let _ = drive_schedule(&mut log, &mut im, &mut or, &mut rng, &mut d, &wire, 0, role, mode, false, 64);
        if d.panicked || d.last_err.is_some() { if d.last_err.is_some() { or.fail(format!("parse failed with {:?} on records without abort/bad version", d.last_err), log.replay_block(), "C18:error".into()); } continue; }
        let exp = spec_deliver(role, id, &recs);
        for s in [T_STDIN, T_DATA] {
            let got = d.delivered.get(&s).cloned().unwrap_or_default();
            let want = exp.get(&s).cloned().unwrap_or_default();
            if got != want { or.fail(format!("role {role}: stream {s} delivered {} bytes, the role's stream order prescribes {} (records: {:?})", got.len(), want.len(), recs.iter().map(|r| (r.rtype, r.id == id, r.content.len())).collect::<Vec<_>>()), log.replay_block(), "C18:flow".into()); }
        }
        or.eval((&wire, role, ci), true);
        if ci == 0 { or.sample(format!("role {role}, records (type, own id, len): {:?}", recs.iter().map(|r| (r.rtype, r.id == id, r.content.len())).collect::<Vec<_>>())); }
    }
    // --- switching to the next stream in the MIDDLE of a record of the current one: the rest of that record must never surface
    for ci in 0..ctx.n(150, 3000) {
        if or.saturated() { or.count("stopped_early_saturated"); break; }
        let id = rng.range(1, 65535) as u16;
        let la = 1 + rng.usize_below(60); let lb = 1 + rng.usize_below(40); let a = rng.bytes(la); let b = rng.bytes(lb);
        let recs = vec![Rec::new(T_STDIN, id, a.clone(), pad_bytes(&mut rng)), Rec::new(T_DATA, id, b.clone(), pad_bytes(&mut rng)), Rec::new(T_DATA, id, vec![], vec![])];
        let wire = ser_all(&recs);
        let cut = 8 + rng.usize_below(a.len());            // inside the payload of the Stdin record
        log.case(&format!("c18-midswitch-{ci}"));
        let Some(mut d) = start_stream_parser(&mut log, &mut im, *rng.pick(&[24usize, 64, 256]), 3, id, 3, 0, &[], "C18") else { continue };
        let use_dest = rng.chance(1, 2);
        // feed up to the cut (in pieces that fit), reading with a small destination so that the record stays half-parsed
        let mut pos = 0;
        while pos < cut { if d.free == 0 { let n = d.buf.len(); d.simple(&mut log, &mut im, &format!("str.consume {n}")); d.simple(&mut log, &mut im, "str.compress"); }
            let n = (cut - pos).min(d.free.max(1)).min(d.free); if n == 0 { break; }
            let dest = if use_dest { d.simple(&mut log, &mut im, &format!("str.consume {}", d.buf.len())); Some(rng.usize_below(4)) } else { None };
            if !d.parse(&mut log, &mut im, &mut or, &wire[pos..pos + n], dest) { break; } pos += n; }
        let o = d.simple(&mut log, &mut im, &format!("str.set_stream {T_DATA}"));
        if !o.starts_with("ok") { or.fail(format!("advancing mid-record was rejected: {o}"), log.replay_block(), "C18:advance-rejected".into()); continue; }
        let before_switch = d.delivered.get(&T_STDIN).cloned().unwrap_or_default();
        d.delivered.clear();
        // everything else, drained
        let mut guard = 0;
        loop { guard += 1; if guard > 2000 { break; }
            if d.free == 0 || !d.buf.is_empty() { let n = d.buf.len(); d.simple(&mut log, &mut im, &format!("str.consume {n}")); d.simple(&mut log, &mut im, "str.compress"); }
            let n = (wire.len() - pos).min(d.free);
            let dest = if use_dest { Some(1 + rng.usize_below(16)) } else { None };
            if !d.parse(&mut log, &mut im, &mut or, &wire[pos..pos + n], dest) { break; } pos += n;
            if d.last_end && pos == wire.len() { break; } }
        let got = d.delivered.get(&T_DATA).cloned().unwrap_or_default();
        if got != b { or.fail(format!("after switching to Data in the middle of a Stdin record, {} bytes were delivered for Data but {} were sent (the rest of the old record leaked or data was lost)", got.len(), b.len()), log.replay_block(), "C18:midrecord-switch".into()); }
        if !a.starts_with(&before_switch) { or.fail("Stdin bytes delivered before the switch are not a prefix of the stream".into(), log.replay_block(), "C18:midrecord-prefix".into()); }
        or.eval(("midswitch", ci), true); or.count("midrecord_switches");
    }
    or.count_n("corr_ops", log.nops);
    log.finish();
    or.write(&ctx.dir);
}

// =====================================================================================================  C04 / C03 stream halves
pub fn c04_str(ctx: &mut Ctx, log: &mut Log, im: &mut Impl, or: &mut Oracle) {
    let mut rng = ctx.rng.fork();
    for ci in 0..ctx.n(300, 6000) {
        if or.saturated() { or.count("stopped_early_saturated"); break; }
        let mc = 1 + rng.usize_below(100_000);
        let nl = 3 + rng.below(6);
        let case = gen_stream_case(&mut rng, nl, mc, false);
        let wire = ser_all(&case.recs);
        let b = *rng.pick(&[24usize, 32, 64, 128, 8192]);
        log.case(&format!("c04s-{ci}"));
        let Some(mut d) = start_stream_parser(log, im, b, mc, case.id, case.role, case.flags, &[], "C04") else { continue };
        let mode = *rng.pick(&[Mode::Dest, Mode::Internal, Mode::Mixed]);
        let early = rng.chance(1, 4);
        // targeted: the caller changes the active stream while a GetValues body is only partly parsed — the query is still owed its reply
        let mut pos0 = 0usize;
        if let Some(gi) = case.recs.iter().position(|r| r.rtype == T_GETVALUES && r.id == 0 && r.content.len() >= 2) { if rng.chance(1, 2) {
            let off: usize = case.recs[..gi].iter().map(|r| r.ser().len()).sum();
            let cut = off + 8 + 1 + rng.usize_below(case.recs[gi].content.len() - 1);
            let mut ok = true;
            while pos0 < cut && ok {
                if !d.buf.is_empty() { let n = d.buf.len(); d.simple(log, im, &format!("str.consume {n}")); }
                if d.free == 0 { d.simple(log, im, "str.compress"); if d.free == 0 { ok = false; break; } }
                let n = (1 + rng.usize_below(40)).min(cut - pos0).min(d.free);
                ok = d.parse(log, im, or, &wire[pos0..pos0 + n], None); pos0 += n;
                if d.last_end { break; }
            }
            if ok && pos0 == cut && !d.last_end { if let Some(cur) = d.active {
                let streams = role_streams(case.role); let idx = streams.iter().position(|&x| x == cur).unwrap_or(streams.len());
                let next = streams.get(idx + 1).copied();
                if !d.buf.is_empty() { let n = d.buf.len(); d.simple(log, im, &format!("str.consume {n}")); }
                d.simple(log, im, &format!("str.set_stream {}", next.map_or("none".to_string(), |n| n.to_string())));
                or.count("set_stream_inside_getvalues_body");
            } }
        } }
        let _ = drive_schedule(log, im, or, &mut rng, &mut d, &wire, pos0, case.role, mode, early, 64);
        if d.panicked { continue; }
        if d.calls == wire.len() && d.emitted != case.expected_out {
            let k = d.emitted.iter().zip(case.expected_out.iter()).position(|(a, b)| a != b).unwrap_or(d.emitted.len().min(case.expected_out.len()));
            or.fail(format!("stream parser emitted {} reply bytes, specification prescribes {} (first difference at byte {k})", d.emitted.len(), case.expected_out.len()), log.replay_block(), "C04:str-replies".into());
        }
        for r in &case.recs { if r.rtype == T_GETVALUES && r.id == 0 && !r.content.is_empty() { or.count("getvalues_queries"); } else if !(1..=11).contains(&r.rtype) { or.count("unknown_type_records"); } else if r.rtype == T_BEGIN && r.id != case.id { or.count("foreign_begin"); } }
        or.eval((&wire, b, ci), !case.expected_out.is_empty());
    }
}

pub fn c03_str(ctx: &mut Ctx, log: &mut Log, im: &mut Impl, or: &mut Oracle) {
    let mut rng = ctx.rng.fork();
    for ci in 0..ctx.n(400, 9000) {
        if or.saturated() { or.count("stopped_early_saturated"); break; }
        let mc = 1 + rng.usize_below(50);
        let nl = rng.below(5);
        let case = gen_stream_case(&mut rng, nl, mc, false);
        let mut recs = case.recs.clone();
        // an abort record somewhere (legal traffic that makes parse fail)
        if rng.chance(1, 5) { let k = rng.usize_below(recs.len() + 1); recs.insert(k, Rec::new(T_ABORT, case.id, rng.bytes(rng.clone().usize_below(9)), pad_bytes(&mut rng))); }
        let mut wire = ser_all(&recs);
        let kind = if ci % 7 == 0 { "valid" } else { crate::reqfam::mutate(&mut rng, &mut wire, &recs) };
        or.count(&format!("mutation={kind}"));
        let b = *rng.pick(&[24usize, 32, 64, 256, 8192]);
        // draining schedule (dest = None, consume all) under several chunkings: outcome must not depend on the chunking
        let mut results: Vec<(String, Vec<u8>, BTreeMap<u8, Vec<u8>>, String)> = vec![];
        let chs = [Chunking::All, Chunking::One, Chunking::Fill, Chunking::pick(&mut rng, wire.len()), Chunking::pick(&mut rng, wire.len())];
        for (k, ch) in chs.iter().enumerate() {
            if wire.len() > 1500 && matches!(ch, Chunking::One) { continue; }
            log.case(&format!("c03s-{ci}-{k}"));
            let Some(mut d) = start_stream_parser(log, im, b, mc, case.id, case.role, 1, &[], "C03") else { continue };
            let mut pos = 0; let streams = role_streams(case.role);
            let mut outcome = String::from("eof");
            let mut guard = 0; let mut no_room = 0;
            loop {
                guard += 1; if guard > 100_000 { or.fail("draining schedule does not terminate".into(), log.replay_block(), "C03:str-hang".into()); break; }
                let mut stuck = false;
                if d.free == 0 {
                    // recover space: consume, compress, parse what is buffered; repeat while that helps
                    let mut tries = 0;
                    while d.free == 0 && d.last_err.is_none() && !d.last_end {
                        tries += 1; if tries > 6 { stuck = true; break; }
                        let n = d.buf.len(); if n > 0 { d.simple(log, im, &format!("str.consume {n}")); }
                        d.simple(log, im, "str.compress");
                        if d.free == 0 { if !d.parse(log, im, or, &[], None) { break; } }
                    }
                }
                if stuck { outcome = "stuck-no-input-space".into(); break; }
                if let Some(e) = d.last_err.clone() { outcome = format!("err:{e}"); break; }
                let n = if pos < wire.len() { ch.next(&mut rng, pos, wire.len() - pos, d.free.max(1)).min(d.free) } else { 0 };
                // no room to feed although input remains, repeatedly (e.g. with no active stream, where every call reports `end`):
                // the parser is stuck on a unit larger than its buffer — an outcome, not a hang of any call
                if n == 0 && pos < wire.len() { no_room += 1; if no_room > 8 { outcome = "stuck-no-input-space".into(); break; } } else { no_room = 0; }
                let ok = d.parse(log, im, or, &wire[pos..pos + n], None);
                pos += n;
                if d.panicked { outcome = "panic".into(); break; }
                if !ok {
                    let e = d.last_err.clone().unwrap_or_default();
                    // sticky: the same error on every later call, no further output
                    let out_before = d.emitted.len();
                    let ok2 = d.parse(log, im, or, &[], None);
                    let e2 = d.last_err.clone().unwrap_or_default();
                    if ok2 || e2 != e || d.emitted.len() != out_before { or.fail(format!("error {e} not repeated by the next call (got {}; {} new output bytes)", if ok2 { "Ok".into() } else { e2 }, d.emitted.len() - out_before), log.replay_block(), "C03:str-not-sticky".into()); }
                    outcome = format!("err:{e}"); break;
                }
                { let nb = d.buf.len(); if nb > 0 { d.simple(log, im, &format!("str.consume {nb}")); } }
                if d.last_end {
                    match d.active { None => { outcome = "end".into(); if pos >= wire.len() { break; } if d.free == 0 { d.simple(log, im, "str.compress"); } if pos >= wire.len() { break; } }
                        Some(cur) => { let idx = streams.iter().position(|&x| x == cur).unwrap_or(streams.len()); let nx = streams.get(idx + 1).copied();
                            d.simple(log, im, &format!("str.set_stream {}", nx.map_or("none".to_string(), |n| n.to_string()))); d.last_end = false; continue; } }
                }
                if pos >= wire.len() && n == 0 { break; }
            }
            if ci % 3 == 0 { ex(log, im, "str.peek_input"); }
            // delivered so far is a prefix of the true content whenever the input was derived from valid traffic for that stream
            results.push((outcome, d.emitted.clone(), d.delivered.clone(), format!("{ch:?}")));
            or.eval((&wire, b, k), kind != "valid");
        }
        for r in results.iter().skip(1) {
            let a = &results[0];
            if r.0 != a.0 || r.1 != a.1 || r.2 != a.2 {
                or.fail(format!("stream parser outcome depends on the chunking ({kind} input, buffer {b}): {} -> {} / {} output bytes / {:?} delivered; {} -> {} / {} output bytes / {:?} delivered",
                    a.3, a.0, a.1.len(), a.2.iter().map(|(k, v)| (*k, v.len())).collect::<Vec<_>>(), r.3, r.0, r.1.len(), r.2.iter().map(|(k, v)| (*k, v.len())).collect::<Vec<_>>()), log.replay_block(), "C03:str-chunk-dependent".into());
                break;
            }
        }
        if kind == "valid" || kind == "truncate" {
            if let Some(a) = results.first() { for (s, c) in &case.contents { let got = a.2.get(s).cloned().unwrap_or_default(); if !c.starts_with(&got) { or.fail(format!("stream {s}: bytes reported before the failure are not a prefix of the true content"), log.replay_block(), "C03:str-prefix".into()); } } }
        }
        if let Some(a) = results.first() { or.count(&format!("str_outcome={}", a.0)); }
    }
}

// =====================================================================================================  C05
pub fn run_c05(ctx: &mut Ctx) {
    let mut log = Log::new(&ctx.dir);
    let mut im = Impl::new();
    let mut or = Oracle::new("C05",
        "connections carrying k = 1..4 sequential requests through the conversion chain request parser -> stream parser -> request parser with one shared buffer; per-request contents as in C01/C02 (noise included); \
         the caller stops reading a stream never / mid-record / at end / before the first byte; look-ahead from 0 bytes to a full buffer at every hand-off (ending mid-header / mid-payload / mid-padding by random chunking); \
         oracle: every environment and every fully-read stream equals what was sent for that request, leftovers are exactly the unread suffix. Non-trivial: k >= 2 or unread input; distinct by (wire, buffer, schedule)");
    crate::exec::witness_corpus(&["C05_"], &mut log, &mut im, &mut or);
    let mut rng = ctx.rng.fork();
    for ci in 0..ctx.n(1000, 6000) {
        if or.saturated() { or.count("stopped_early_saturated"); break; }
        // a few connections with a buffer beyond 2^16 and 65535-byte records: a full buffer of look-ahead is then > 64 KiB at a hand-off
        let large = ci % 200 == 33;
        let k = if large { 1 + rng.usize_below(2) } else { 1 + rng.usize_below(4) };
        let mc = 1 + rng.usize_below(64);
        let b = if large { *rng.pick(&[66_000usize, 131_072]) } else { *rng.pick(&[64usize, 96, 128, 256, 1024, 8192]) };
        if large { or.count("large_buffer_connections"); }
        struct R { pre: Preamble, case: StreamCase, wire_pre: Vec<u8>, wire_str: Vec<u8> }
        let mut reqs: Vec<R> = vec![];
        for _ in 0..k {
            let pairs: Vec<(Vec<u8>, Vec<u8>)> = gen_pairs(&mut rng, false).into_iter().filter(|(n, v)| n.len() + v.len() + 13 <= b).collect();
            let nls = rng.below(4);
            let mut case = gen_stream_case(&mut rng, nls, mc, large);
            // every third case: one long record (> 256 bytes) so that a caller stopping mid-record leaves every possible amount outstanding
            if !large && rng.chance(1, 3) && !case.contents.is_empty() {
                let (s0, _) = case.contents[0];
                let len = 257 + rng.usize_below(1300);
                let c = rng.bytes(len);
                case.recs.retain(|r| !(r.rtype == s0 && r.id == case.id));
                let mut front = vec![Rec::new(s0, case.id, c.clone(), pad_bytes(&mut rng)), Rec::new(s0, case.id, vec![], vec![])];
                front.extend(case.recs.drain(..));
                case.recs = front;
                case.contents[0].1 = c;
            }
            // a one-request-at-a-time client sends no BeginRequest while a request is in progress; with unread input such a
            // record would reach the next request parser in its idle state and legitimately start a request
            case.recs.retain(|r| r.rtype != T_BEGIN);
            // all streams must be terminated so that the next request is not mistaken for stream data
            for (i, &s) in role_streams(case.role).iter().enumerate() { if !case.recs.iter().any(|r| r.rtype == s && r.id == case.id && r.content.is_empty()) { let _ = i; case.recs.push(Rec::new(s, case.id, vec![], vec![])); } }
            let pre = Preamble { id: case.id, role: case.role, flags: case.flags | 1, pairs };
            let nl = rng.below(4);
            let built = build_preamble(&mut rng, &pre, nl, mc, 40);
            reqs.push(R { wire_pre: ser_all(&built.recs), wire_str: ser_all(&case.recs), pre, case });
        }
        let mut wire: Vec<u8> = vec![]; let mut bounds = vec![];
        for r in &reqs { wire.extend(&r.wire_pre); wire.extend(&r.wire_str); bounds.push(wire.len()); }
        
        log.case(&format!("c05-{ci}"));
        let o = ex(&mut log, &mut im, &format!("req.new {b} {mc}"));
        let mut free: usize = field(&o, "free").and_then(|x| x.parse().ok()).unwrap_or(0);
        let mut pos = 0usize;
        let mut okcase = true;
        let mut unread_any = false;
        for (ri, r) in reqs.iter().enumerate() {
            // ---- preamble through the request parser (may read ahead into the streams)
            let lim0 = if ri + 1 == reqs.len() { wire.len() } else { bounds[ri] };   // one request outstanding: no bytes of request i+1 yet
            let ch = if large { if rng.chance(1, 2) { Chunking::Fill } else { Chunking::All } } else { Chunking::pick(&mut rng, lim0 - pos) };
            let mut done = false;
            while !done {
                if pos >= lim0 || free == 0 { break; }
                let n = ch.next(&mut rng, 0, lim0 - pos, free);
                let o = ex(&mut log, &mut im, &format!("req.feed {}", hexd(&wire[pos..pos + n])));
                pos += n;
                done = field(&o, "done") == Some("true");
                free = field(&o, "free").and_then(|x| x.parse().ok()).unwrap_or(0);
            }
            let peek = ex(&mut log, &mut im, "req.peek");
            let exp_core = format!("ok id={} role={} flags={} env={} acc=ok ", r.pre.id, r.pre.role, r.pre.flags, env_fmt(&spec_env(&r.pre.pairs)));
            if !peek.starts_with(&exp_core) { or.fail(format!("request {} of {k}: parsed `{}`, sent `{}`", ri + 1, &peek[..peek.len().min(120)], &exp_core[..exp_core.len().min(120)]), log.replay_block(), "C05:request".into()); okcase = false; break; }
            let o = ex(&mut log, &mut im, "req.into_stream");
            let Some(mut d) = Drv::from_into_stream(&o, "C05") else { or.fail(format!("into_stream_parser failed: {o}"), log.replay_block(), "C05:into-stream".into()); okcase = false; break; };
            // ---- streams: read fully / partly / not at all
            let how = rng.below(4);
            let end_of_req = bounds[ri];
            let mode = *rng.pick(&[Mode::Dest, Mode::Internal, Mode::Mixed]);
            if how == 0 && rng.chance(1, 3) {
                // sync-API hand-over WITHOUT deselecting the stream first, with stream data parsed into the internal buffer and not
                // consumed: into_request_parser discards it — it must not reach the next request parser as protocol input
                if let Some(cur) = d.active {
                    let sbase = (if ri == 0 { 0 } else { bounds[ri - 1] }) + r.wire_pre.len();
                    let mut o2 = sbase; let mut target = None;
                    for rec in &r.case.recs { let l = rec.ser().len(); if rec.rtype == cur && rec.id == r.case.id && !rec.content.is_empty() && o2 >= pos { target = Some(o2 + l); break; } o2 += l; }
                    if let Some(t) = target {
                        let mut okp = true;
                        while pos < t && d.free > 0 && okp { let n = (t - pos).min(d.free).min(1 + rng.usize_below(64)); okp = d.parse(&mut log, &mut im, &mut or, &wire[pos..pos + n], None); pos += n; }
                        if okp && pos == t && d.boundary && !d.buf.is_empty() && !d.last_end {
                            d.consume_output_all(&mut log, &mut im);
                            let o = ex(&mut log, &mut im, "str.into_req");
                            if !o.starts_with("ok") { or.fail(format!("into_request_parser at a record boundary (stream data still buffered) failed: {o}"), log.replay_block(), "C05:into-req".into()); okcase = false; break; }
                            free = field(&o, "free").and_then(|x| x.parse().ok()).unwrap_or(0);
                            unread_any = true; or.count("handover_with_buffered_stream_data");
                            continue;
                        }
                    }
                }
            }
            if how != 0 {
                // bounded number of reading steps for 'partly'
                // the client keeps one request outstanding: bytes of request i+1 arrive only after request i was closed
                let sub_end = if how == 1 { pos + rng.usize_below(end_of_req.saturating_sub(pos) + 1) } else { end_of_req };
                let sub_end = sub_end.max(pos).min(end_of_req.max(pos));
                let _ = drive_schedule(&mut log, &mut im, &mut or, &mut rng, &mut d, &wire[..sub_end], pos, r.case.role, mode, false, if large { 70_000 } else { 64 });
                pos = d.calls;
                if let Some(e) = &d.last_err { or.fail(format!("stream parser failed with {e} on well-formed traffic"), log.replay_block(), "C05:stream-error".into()); okcase = false; break; }
                for (s, c) in &r.case.contents {
                    let got = d.delivered.get(s).cloned().unwrap_or_default();
                    if !c.starts_with(&got) || (how >= 2 && got.len() != c.len()) {
                        or.fail(format!("request {} of {k}, stream {s}: delivered {} bytes vs {} sent (read mode {how})", ri + 1, got.len(), c.len()), log.replay_block(), "C05:stream-content".into()); okcase = false;
                    }
                }
            } else { unread_any = true; }
            if how == 1 { unread_any = true; }
            if !okcase { break; }
            // ---- close: ignore the rest, run to a record boundary, hand the buffer back
            d.simple(&mut log, &mut im, "str.set_stream none");
            // the hand-off attempted too early: off a record boundary it must be refused (Interrupted), never performed
            if !d.boundary && rng.chance(1, 12) {
                let o = ex(&mut log, &mut im, "str.into_req");
                if o != "err interrupted" { or.fail(format!("into_request_parser off a record boundary returned `{}`", &o[..o.len().min(80)]), log.replay_block(), "C05:into-req-off-boundary".into()); }
                or.count("into_req_off_boundary");
                break;
            }
            let mut guard = 0;
            loop {
                guard += 1; if guard > 100_000 { or.fail("draining to a record boundary does not terminate".into(), log.replay_block(), "C05:boundary".into()); okcase = false; break; }
                if d.boundary { break; }
                if d.free == 0 { d.simple(&mut log, &mut im, "str.compress"); }
                let lim = end_of_req.max(pos);
                let n = if pos < lim { (if large { d.free.max(1) } else if ci % 2 == 0 { 1 } else { 1 + rng.usize_below(64) }).min(lim - pos).min(d.free) } else { 0 };
                if !d.parse(&mut log, &mut im, &mut or, &wire[pos..pos + n], None) && d.last_err.as_deref() != Some("abort") { break; }
                pos += n;
                if pos >= lim && n == 0 && !d.boundary { break; }
            }
            if !okcase { break; }
            d.consume_output_all(&mut log, &mut im);
            if ri + 1 == reqs.len() && rng.chance(1, 2) {
                // final hand-off: the leftover input must be exactly what was fed but not interpreted
                let o = ex(&mut log, &mut im, "str.into_input");
                // everything up to the held header / current position; the stream parser stopped at the first header it did not consume
                if let Some(h) = o.strip_prefix("ok ") { let left = unhex(h); if !wire[..pos].ends_with(&left) { or.fail("into_input returned bytes that are not a suffix of the fed input".into(), log.replay_block(), "C05:into-input".into()); } }
                break;
            }
            let o = ex(&mut log, &mut im, "str.into_req");
            if !o.starts_with("ok") { or.fail(format!("into_request_parser failed at a record boundary: {o}"), log.replay_block(), "C05:into-req".into()); okcase = false; break; }
            free = field(&o, "free").and_then(|x| x.parse().ok()).unwrap_or(0);
        }
        or.eval((&wire, b, ci), okcase && (k >= 2 || unread_any));
        or.count(&format!("k={k}"));
        if ci == 0 { or.sample(format!("{k} requests, buffer {b}, wire {} bytes", wire.len())); }
    }
    or.count_n("corr_ops", log.nops);
    log.finish();
    or.write(&ctx.dir);
}
