//! Scripted transport (both halves share one state) — mirrors `Fcgi.Async.Transport` of the model.
use futures_util::io::{AsyncRead, AsyncWrite};
use std::collections::VecDeque;
use std::io::{self, IoSlice};
use std::pin::Pin;
use std::sync::{Arc, Mutex};
use std::task::{Context, Poll, Waker};

#[derive(Clone, Copy, Debug, PartialEq)]
pub enum Rd { N(usize), All, Pending, Err }
#[derive(Clone, Copy, Debug, PartialEq)]
pub enum Wr { N(usize), All, Pending, Zero, Err }
#[derive(Clone, Copy, Debug, PartialEq)]
pub enum Fl { Ok, Pending, Err }
#[derive(Clone, Copy, Debug, PartialEq)]
pub enum EndMode { Eof, Pend, Err }

#[derive(Debug)]
pub struct Shared {
    pub input: VecDeque<u8>,
    pub end: EndMode,
    /// transport errors carry kind ConnectionAborted (like ECONNABORTED) instead of a kind the library never produces
    pub abort_kind: bool,
    pub intr_kind: bool,
    /// reads answered with end-of-file so far; a task that keeps reading at EOF is spinning (guard: panic, reported as SPIN)
    pub eof_reads: usize,
    pub spun: bool,
    pub rd: VecDeque<Rd>,
    pub wr: VecDeque<Wr>,
    pub fl: VecDeque<Fl>,
    pub wlog: Vec<u8>,
    pub events: Vec<String>,
    /// `true`: a scripted `Pending` wakes the task at once (transient not-ready); waiting for input registers the waker
    pub auto_wake: bool,
    pub read_waker: Option<Waker>,
    pub waiting_for_input: bool,
    pub reads: usize,
    pub writes: usize,
    /// the peer still holds back input: an empty input means wait, not end-of-stream
    pub hold: bool,
}
impl Shared {
    pub fn new(input: &[u8], end: EndMode, rd: Vec<Rd>, wr: Vec<Wr>, fl: Vec<Fl>) -> Arc<Mutex<Shared>> {
        Arc::new(Mutex::new(Shared { input: input.iter().copied().collect(), end, rd: rd.into(), wr: wr.into(), fl: fl.into(), wlog: vec![], events: vec![],
            auto_wake: false, read_waker: None, waiting_for_input: false, reads: 0, writes: 0, hold: false, abort_kind: false, intr_kind: false, eof_reads: 0, spun: false }))
    }
    /// the error a scripted fault produces: by default a kind the library never produces itself (one per operation), with `ek=a` the
    /// kind ConnectionAborted (which the library also uses for "the client aborted"), with `ek=i` the kind Interrupted (which generic
    /// I/O code likes to retry) carrying a payload that names the operation
    pub fn terr(&self, k: io::ErrorKind) -> io::Error {
        if self.abort_kind { io::ErrorKind::ConnectionAborted.into() }
        else if self.intr_kind { io::Error::new(io::ErrorKind::Interrupted, match k { io::ErrorKind::TimedOut => "mock:tread", io::ErrorKind::BrokenPipe => "mock:twrite", _ => "mock:tflush" }) }
        else { k.into() }
    }
}
pub struct MockR(pub Arc<Mutex<Shared>>);
pub struct MockW(pub Arc<Mutex<Shared>>);

impl AsyncRead for MockR {
    fn poll_read(self: Pin<&mut Self>, cx: &mut Context<'_>, buf: &mut [u8]) -> Poll<io::Result<usize>> {
        let mut s = self.0.lock().unwrap();
        let cap = buf.len();
        s.reads += 1;
        if cap == 0 { s.events.push("R0:0".into()); return Poll::Ready(Ok(0)); }
        let a = s.rd.pop_front().unwrap_or(Rd::All);
        if a == Rd::Pending { s.events.push(format!("R{cap}:P")); if s.auto_wake { cx.waker().wake_by_ref(); } return Poll::Pending; }
        if a == Rd::Err { s.events.push(format!("R{cap}:E")); return Poll::Ready(Err(s.terr(io::ErrorKind::TimedOut))); }
        if s.input.is_empty() {
            if s.hold { s.events.push(format!("R{cap}:W")); s.read_waker = Some(cx.waker().clone()); s.waiting_for_input = true; return Poll::Pending; }
            return match s.end {
                EndMode::Eof => {
                    s.eof_reads += 1;
                    if s.eof_reads > 5000 { s.spun = true; drop(s); panic!("transport: more than 5000 reads answered with end-of-file: the task is spinning"); }
                    s.events.push(format!("R{cap}:0")); Poll::Ready(Ok(0)) }
                EndMode::Pend => { s.events.push(format!("R{cap}:W")); s.read_waker = Some(cx.waker().clone()); s.waiting_for_input = true; Poll::Pending }
                EndMode::Err => { s.events.push(format!("R{cap}:E")); Poll::Ready(Err(s.terr(io::ErrorKind::TimedOut))) }
            };
        }
        let k = match a { Rd::N(k) => k.max(1).min(cap).min(s.input.len()), _ => cap.min(s.input.len()) };
        for b in buf.iter_mut().take(k) { *b = s.input.pop_front().unwrap(); }
        s.events.push(format!("R{cap}:{k}"));
        Poll::Ready(Ok(k))
    }
}

fn write_v(s: &mut Shared, cx: &mut Context<'_>, slices: &[&[u8]], tag: &str) -> Poll<io::Result<usize>> {
    let total: usize = slices.iter().map(|x| x.len()).sum();
    let desc = format!("{tag}{}", slices.iter().map(|x| x.len().to_string()).collect::<Vec<_>>().join("+"));
    s.writes += 1;
    if total == 0 { s.events.push(format!("{desc}:0")); return Poll::Ready(Ok(0)); }
    let a = s.wr.pop_front().unwrap_or(Wr::All);
    match a {
        Wr::Pending => { s.events.push(format!("{desc}:P")); if s.auto_wake { cx.waker().wake_by_ref(); } Poll::Pending }
        Wr::Zero => { s.events.push(format!("{desc}:Z")); Poll::Ready(Ok(0)) }
        Wr::Err => { s.events.push(format!("{desc}:E")); Poll::Ready(Err(s.terr(io::ErrorKind::BrokenPipe))) }
        Wr::All | Wr::N(_) => {
            let k = match a { Wr::N(k) => k.max(1).min(total), _ => total };
            let mut left = k;
            for sl in slices { let n = left.min(sl.len()); s.wlog.extend(&sl[..n]); left -= n; if left == 0 { break; } }
            s.events.push(format!("{desc}:{k}"));
            Poll::Ready(Ok(k))
        }
    }
}

impl AsyncWrite for MockW {
    fn poll_write(self: Pin<&mut Self>, cx: &mut Context<'_>, buf: &[u8]) -> Poll<io::Result<usize>> {
        let mut s = self.0.lock().unwrap();
        write_v(&mut s, cx, &[buf], "W")
    }
    fn poll_write_vectored(self: Pin<&mut Self>, cx: &mut Context<'_>, bufs: &[IoSlice<'_>]) -> Poll<io::Result<usize>> {
        let mut s = self.0.lock().unwrap();
        let v: Vec<&[u8]> = bufs.iter().map(|b| &**b).collect();
        write_v(&mut s, cx, &v, "V")
    }
    fn poll_flush(self: Pin<&mut Self>, cx: &mut Context<'_>) -> Poll<io::Result<()>> {
        let mut s = self.0.lock().unwrap();
        match s.fl.pop_front().unwrap_or(Fl::Ok) {
            Fl::Ok => { s.events.push("F:O".into()); Poll::Ready(Ok(())) }
            Fl::Pending => { s.events.push("F:P".into()); if s.auto_wake { cx.waker().wake_by_ref(); } Poll::Pending }
            Fl::Err => { s.events.push("F:E".into()); Poll::Ready(Err(s.terr(io::ErrorKind::PermissionDenied))) }
        }
    }
    fn poll_close(self: Pin<&mut Self>, _: &mut Context<'_>) -> Poll<io::Result<()>> { Poll::Ready(Ok(())) }
}

pub fn io_kind(e: &io::Error) -> String {
    use io::ErrorKind::*;
    match e.kind() {
        Interrupted if e.get_ref().map_or(false, |x| x.to_string().starts_with("mock:")) => e.get_ref().unwrap().to_string()[5..].to_string(),
        ConnectionAborted => if matches!(e.get_ref().and_then(|x| x.downcast_ref::<fastcgi_server::parser::Error>()), Some(fastcgi_server::parser::Error::AbortRequest)) { "abort-request".into() } else { "aborted".into() }, InvalidData => "invalid".into(), UnexpectedEof => "eof".into(), WriteZero => "writezero".into(),
        ConnectionReset => "reset".into(), TimedOut => "tread".into(), BrokenPipe => "twrite".into(), PermissionDenied => "tflush".into(),
        Other => if e.to_string().contains("StreamWriter(s) not dropped") { "writers".into() } else { "other".into() },
        k => format!("unmapped:{k:?}"),
    }
}

pub fn parse_rd(s: &str) -> Vec<Rd> { if s == "-" { vec![] } else { s.split(',').map(|x| match x { "A" => Rd::All, "P" => Rd::Pending, "E" => Rd::Err, n => Rd::N(n.parse().unwrap()) }).collect() } }
pub fn parse_wr(s: &str) -> Vec<Wr> { if s == "-" { vec![] } else { s.split(',').map(|x| match x { "A" => Wr::All, "P" => Wr::Pending, "Z" => Wr::Zero, "E" => Wr::Err, n => Wr::N(n.parse().unwrap()) }).collect() } }
pub fn parse_fl(s: &str) -> Vec<Fl> { if s == "-" { vec![] } else { s.split(',').map(|x| match x { "O" => Fl::Ok, "P" => Fl::Pending, _ => Fl::Err }).collect() } }
