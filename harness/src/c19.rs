//! C19 — CGI variable names.
use crate::exec::{mk_owned, rec_hash, run as ex, Impl};
use crate::util::*;
use fastcgi_server::cgi::{OwnedVarName, StaticVarName, VarName};
use std::collections::{BTreeMap, HashMap};
use std::hash::{Hash, Hasher};

pub fn table_names() -> Vec<String> {
    // the generated Lean table is the source of the names; the harness reads the same file
    let p = std::path::Path::new(env!("CARGO_MANIFEST_DIR")).join("../lean/Fcgi/Gen/Tables.lean");
    let text = std::fs::read_to_string(p).expect("Tables.lean");
    // the translator drops an item it can no longer extract (the theorems about it then stop compiling); the oracle still needs the
    // names: fall back to the committed snapshot
    let Some(start) = text.find("def staticVarNames") else {
        let snap = std::path::Path::new(env!("CARGO_MANIFEST_DIR")).join("static_names.txt");
        return std::fs::read_to_string(snap).expect("static_names.txt").lines().filter(|l| !l.is_empty()).map(|l| l.to_string()).collect();
    };
    let body = &text[start..];
    let end = body.find("\n]").unwrap();
    let mut out = vec![];
    for line in body[..end].lines().skip(1) {
        let l = line.trim().trim_end_matches(',');
        if !l.starts_with('[') { continue; }
        let bytes: Vec<u8> = l.trim_matches(|c| c == '[' || c == ']').split(',').filter(|x| !x.trim().is_empty()).map(|x| x.trim().parse().unwrap()).collect();
        out.push(String::from_utf8(bytes).unwrap());
    }
    out
}

fn mixed(s: &str, rng: &mut Rng) -> String { s.chars().map(|c| if rng.chance(1, 2) { c.to_ascii_lowercase() } else { c.to_ascii_uppercase() }).collect() }
fn dh<T: Hash + ?Sized>(t: &T) -> u64 { let mut h = std::collections::hash_map::DefaultHasher::new(); t.hash(&mut h); h.finish() }

const CTORS: [&str; 8] = ["str", "varname", "toowned", "cowb", "cowo", "string", "box", "mutstr"];
const NORMALISING: [&str; 4] = ["cowo", "string", "box", "mutstr"];

pub fn run(ctx: &mut Ctx) {
    let mut log = Log::new(&ctx.dir);
    let mut im = Impl::new();
    let mut or = Oracle::new("C19",
        "every interned name in upper/lower/mixed case through every constructor; pairs differing only in case, only in length across the 16-byte hashing chunk boundary \
         (15,16,17,31,32,33), only in one non-ASCII character; empty string; random identifier-like and unicode strings; triples for order transitivity; real HashMap/BTreeMap lookups. \
         Every op compared with the Lean model; oracle = the property's statement with Rust's own to_ascii_uppercase as reference. Non-trivial: the two spellings differ; distinct by (ctor, string) pair");
    let mut rng = ctx.rng.fork();
    let names = table_names();
    or.count_n("interned_names", names.len() as u64);

    // --- the translator's table against the compiled crate (strum's generated parser and strings)
    log.case("flat-table");
    for n in &names {
        let op = format!("static.parse {}", hex(n.as_bytes()));
        let o = ex(&mut log, &mut im, &op);
        if o != format!("ok {}", hex(n.as_bytes())) { or.fail(format!("interned name {n} does not parse/read back canonically: {o}"), format!("# case flat-oracle\n{op}"), format!("table:{n}")); }
        let lo = n.to_ascii_lowercase();
        let o = ex(&mut log, &mut im, &format!("static.parse {}", hex(lo.as_bytes())));
        if o != "err" && lo != *n { or.fail(format!("lower-case spelling {lo} parsed as a static name (parser should be exact)"), format!("# case flat-oracle\nstatic.parse {}", hex(lo.as_bytes())), format!("table-lc:{n}")); }
        or.eval(("table", n), true);
    }
    // --- a pool of interesting strings
    let mut pool: Vec<String> = vec!["".into(), "a".into(), "A".into(), "z".into(), "Z".into(), "@".into(), "[".into(), "`".into(), "{".into(), "é".into(), "É".into(), "ß".into(), "aé".into(), "Aé".into(), "aÉ".into(),
        "http_x".into(), "HTTP_X".into(), "Http_X".into(), "content-length".into(), "CONTENT_LENGTH".into(), "content_length".into(), "Content_Length".into(), "CONTENT_LENGTHX".into(), "CONTENT_LENGT".into()];
    for len in [15usize, 16, 17, 31, 32, 33, 47, 48, 49] {
        let base: String = (0..len).map(|i| (b'a' + (i % 26) as u8) as char).collect();
        pool.push(base.clone()); pool.push(base.to_ascii_uppercase()); pool.push(mixed(&base, &mut rng));
        pool.push(base[..len - 1].to_string()); pool.push(format!("{base}x"));
        let mut ne = base.clone(); ne.replace_range(len / 2..len / 2 + 1, "é"); pool.push(ne.clone()); pool.push(ne.to_ascii_uppercase());
        let mut nz = base.clone().into_bytes(); nz[len - 1] = 0xff - 0x80 + 1; // keep ASCII? use char 0x7f
        nz[len - 1] = 0x7f; pool.push(String::from_utf8(nz).unwrap());
        // a string whose 16-byte chunk ends in 0xff-like high byte sequence: unicode U+00FF (c3 bf)
        let mut uf = base.clone(); uf.push('ÿ'); pool.push(uf);
    }
    // dashes behind an HTTP_ prefix (the header conversion maps `-` to `_`; NO constructor of a name does): spellings of interned and
    // free HTTP_ names with one or all `_` after the prefix written as `-`, in upper, lower and mixed case
    for n in names.iter().filter(|n| n.starts_with("HTTP_")).take(ctx.n(12, 200) as usize) {
        let tail = &n[5..];
        let all = format!("HTTP_{}", tail.replace('_', "-")); let one = format!("HTTP_{}", tail.replacen('_', "-", 1));
        for v in [all, one, format!("HTTP-{tail}")] { if !names.contains(&v) { pool.push(v.clone()); pool.push(v.to_ascii_lowercase()); pool.push(mixed(&v, &mut rng)); } }
    }
    for v in ["http_x-real-ip", "HTTP_X-REAL-IP", "HTTP_X_REAL_IP", "Http_X-Id", "HTTP_X_ID", "HTTP_-", "HTTP_-_", "X-HTTP_A-B", "HTTPS_A-B"] { pool.push(v.into()); }
    let nsample = ctx.n(40, names.len() as u64) as usize;
    // near misses of interned names: one `_`-separated token removed / doubled (an alias slipped into the interning table would equate
    // such a name with a different interned one)
    for n in names.iter() { let toks: Vec<&str> = n.split('_').collect(); if toks.len() >= 3 { for k in 1..toks.len() { let mut t = toks.clone(); t.remove(k); let v = t.join("_"); if !names.contains(&v) { pool.push(v.clone()); pool.push(v.to_ascii_lowercase()); } } } }
    for i in 0..nsample { let n = &names[(i * 7 + ctx.seed as usize) % names.len()]; pool.push(n.clone()); pool.push(n.to_ascii_lowercase()); pool.push(mixed(n, &mut rng)); pool.push(format!("{n}_")); pool.push(n[..n.len() - 1].to_string()); }
    for _ in 0..ctx.n(40, 400) {
        let l = rng.usize_below(40);
        let s: String = (0..l).map(|_| match rng.below(12) { 0 => '_', 1 => '-', 2 => (b'0' + rng.below(10) as u8) as char, 3 => *rng.pick(&['é', 'Ü', 'ÿ', '€', 'ǅ', 'ı', 'K']), 4..=7 => (b'a' + rng.below(26) as u8) as char, _ => (b'A' + rng.below(26) as u8) as char }).collect();
        pool.push(s.clone()); pool.push(mixed(&s, &mut rng));
    }
    pool.sort(); pool.dedup();
    or.count_n("pool_strings", pool.len() as u64);

    // --- borrowed names: eq / cmp / hash on pairs
    log.case("flat-borrowed");
    let npairs = ctx.n(6000, 120_000);
    for i in 0..npairs {
        let a = rng.pick(&pool).clone();
        let b = match rng.below(5) { 0 => a.to_ascii_uppercase(), 1 => mixed(&a, &mut rng), 2 => a.to_ascii_lowercase(),
            // one character replaced by its partner under a bit trick a hand-rolled fold might use (bit 5, bit 6, +-32, off-by-one
            // range ends): '[' / '{', '^' / '~', '@' / '`', '_' / DEL, digits / control characters, 'z' / 'Z' ... — equal ONLY if
            // the two are the same ASCII letter in different case
            3 if !a.is_empty() => { let cs: Vec<char> = a.chars().collect(); let k = rng.usize_below(cs.len()); let c = cs[k];
                let alt = if c.is_ascii() { let x = c as u8; let y = match rng.below(4) { 0 => x ^ 0x20, 1 => x ^ 0x40, 2 => x.wrapping_add(32) & 0x7f, _ => x.wrapping_sub(32) & 0x7f }; y as char } else { c };
                let mut t = cs.clone(); t[k] = alt; t.into_iter().collect() }
            _ => rng.pick(&pool).clone() };
        let op = format!("name.rel {} {}", hexd(a.as_bytes()), hexd(b.as_bytes()));
        let o = ex(&mut log, &mut im, &op);
        let (x, y) = (VarName::new(&a), VarName::new(&b));
        let ref_eq = a.to_ascii_uppercase() == b.to_ascii_uppercase();
        let ref_cmp = a.to_ascii_uppercase().as_bytes().cmp(b.to_ascii_uppercase().as_bytes());
        let bad = (x == y) != ref_eq || x.cmp(y) != ref_cmp || ((x.cmp(y) == std::cmp::Ordering::Equal) != ref_eq) || (ref_eq && (rec_hash(x) != rec_hash(y) || dh(x) != dh(y)))
            || (!ref_eq && rec_hash(x) == rec_hash(y));
        if bad { or.fail(format!("VarName relations for ({a:?}, {b:?}) violate the property: {o}"), format!("# case flat-oracle\n{op}"), format!("rel:{a}:{b}")); }
        or.eval((&a, &b), a != b);
        if i == 0 { or.sample(format!("{op} -> {o}")); }
    }
    for s in &pool { ex(&mut log, &mut im, &format!("name.hash {}", hexd(s.as_bytes()))); }
    // prefix-freeness of the write sequences: no sequence is a prefix of another (flattened) unless equal
    for _ in 0..ctx.n(3000, 60_000) {
        let a = rng.pick(&pool); let b = rng.pick(&pool);
        let (fa, fb) = (rec_hash(VarName::new(a)).concat(), rec_hash(VarName::new(b)).concat());
        if a.to_ascii_uppercase() != b.to_ascii_uppercase() && (fa.starts_with(&fb) || fb.starts_with(&fa)) {
            or.fail(format!("hash input of {a:?} is a prefix of that of {b:?} (not prefix-free)"), format!("# case flat-oracle\nname.hash {}\nname.hash {}", hexd(a.as_bytes()), hexd(b.as_bytes())), format!("prefixfree:{a}:{b}"));
        }
        or.eval(("pf", a, b), a != b);
    }

    // --- owned names: constructors
    log.case("flat-owned");
    for s in &pool {
        for c in CTORS {
            let op = format!("owned.mk {c} {}", hexd(s.as_bytes()));
            let o = ex(&mut log, &mut im, &op);
            let exp = if NORMALISING.contains(&c) { s.to_ascii_uppercase() } else { s.clone() };
            if o != hexd(exp.as_bytes()) { or.fail(format!("constructor {c}({s:?}) reads back as {o}, expected {exp:?}"), format!("# case flat-oracle\n{op}"), format!("ctor:{c}:{s}")); }
            or.eval(("ctor", c, s), true);
        }
    }
    for n in &names {
        let op = format!("owned.mk static {}", hex(n.as_bytes()));
        let o = ex(&mut log, &mut im, &op);
        if o != hex(n.as_bytes()) { or.fail(format!("From<StaticVarName>({n}) reads back as {o}"), format!("# case flat-oracle\n{op}"), format!("ctor:static:{n}")); }
    }
    // header names
    let mut headers: Vec<String> = vec!["x".into(), "x-y".into(), "-".into(), "--a--".into(), "content-length".into(), "accept-encoding".into(), "x-forwarded-for".into(), "sec-ch-ua-platform-version".into(), "a_b-c".into(), "x-0-9".into()];
    for n in names.iter().filter(|n| n.starts_with("HTTP_")).take(ctx.n(20, 200) as usize) { headers.push(n[5..].to_ascii_lowercase().replace('_', "-")); }
    for _ in 0..ctx.n(30, 300) { let l = 1 + rng.usize_below(30); headers.push((0..l).map(|_| match rng.below(6) { 0 => '-', 1 => '_', 2 => (b'0' + rng.below(10) as u8) as char, _ => (b'a' + rng.below(26) as u8) as char }).collect()); }
    for h in &headers {
        let op = format!("owned.mk header {}", hex(h.as_bytes()));
        let o = ex(&mut log, &mut im, &op);
        let exp = format!("HTTP_{}", h.to_ascii_uppercase().replace('-', "_"));
        if o != hex(exp.as_bytes()) { or.fail(format!("header {h:?} maps to {o}, expected {exp}"), format!("# case flat-oracle\n{op}"), format!("header:{h}")); }
        or.eval(("hdr", h), true);
    }

    // --- owned names: relations between every pair of representations
    log.case("flat-owned-rel");
    let all_ctors: Vec<&str> = CTORS.iter().copied().chain(["static"]).collect();
    for i in 0..ctx.n(8000, 150_000) {
        let a = rng.pick(&pool).clone();
        let b = match rng.below(4) { 0 => a.to_ascii_uppercase(), 1 => mixed(&a, &mut rng), 2 => a.to_ascii_lowercase(), _ => rng.pick(&pool).clone() };
        let (mut c1, mut c2) = (*rng.pick(&all_ctors), *rng.pick(&all_ctors));
        if c1 == "static" && !names.contains(&a) { c1 = "str"; }
        if c2 == "static" && !names.contains(&b) { c2 = "string"; }
        let op = format!("owned.rel {c1} {} {c2} {}", hexd(a.as_bytes()), hexd(b.as_bytes()));
        let o = ex(&mut log, &mut im, &op);
        let (x, y) = (mk_owned(c1, a.as_bytes()).unwrap(), mk_owned(c2, b.as_bytes()).unwrap());
        let ref_eq = a.to_ascii_uppercase() == b.to_ascii_uppercase();
        let ref_cmp = a.to_ascii_uppercase().as_bytes().cmp(b.to_ascii_uppercase().as_bytes());
        let bx: &VarName = std::borrow::Borrow::borrow(&x);
        let bad = (x == y) != ref_eq || x.cmp(&y) != ref_cmp || (ref_eq && (rec_hash(&x) != rec_hash(&y) || dh(&x) != dh(&y)))
            || rec_hash(&x) != rec_hash(bx) || (bx == VarName::new(&b)) != ref_eq;   // Borrow contract: same Eq/Ord/Hash as the borrowed form
        if bad { or.fail(format!("OwnedVarName relations for {c1}({a:?}) vs {c2}({b:?}) violate the property: {o}"), format!("# case flat-oracle\n{op}"), format!("orel:{c1}:{a}:{c2}:{b}")); }
        or.eval((c1, &a, c2, &b), a != b || c1 != c2);
        if i == 0 { or.sample(format!("{op} -> {o}")); }
    }
    // --- order is total and transitive on triples (owned, mixed representations)
    for _ in 0..ctx.n(3000, 60_000) {
        let t: Vec<(String, OwnedVarName)> = (0..3).map(|_| { let s = rng.pick(&pool).clone(); let c = *rng.pick(&CTORS); let o = mk_owned(c, s.as_bytes()).unwrap(); (s, o) }).collect();
        use std::cmp::Ordering::*;
        let (ab, bc, ac, ba) = (t[0].1.cmp(&t[1].1), t[1].1.cmp(&t[2].1), t[0].1.cmp(&t[2].1), t[1].1.cmp(&t[0].1));
        let trans_ok = !((ab != Greater && bc != Greater) && ac == Greater) && !((ab != Less && bc != Less) && ac == Less);
        if ab != ba.reverse() || !trans_ok {
            or.fail(format!("order not antisymmetric/transitive on ({:?}, {:?}, {:?})", t[0].0, t[1].0, t[2].0),
                format!("# case flat-oracle\nowned.rel str {} str {}\nowned.rel str {} str {}\nowned.rel str {} str {}", hexd(t[0].0.as_bytes()), hexd(t[1].0.as_bytes()), hexd(t[1].0.as_bytes()), hexd(t[2].0.as_bytes()), hexd(t[0].0.as_bytes()), hexd(t[2].0.as_bytes())),
                format!("order:{}:{}:{}", t[0].0, t[1].0, t[2].0));
        }
        or.eval(("tri", &t[0].0, &t[1].0, &t[2].0), true);
    }
    // --- map lookups by any spelling
    let mut hm: HashMap<OwnedVarName, usize> = HashMap::new();
    let mut bm: BTreeMap<OwnedVarName, usize> = BTreeMap::new();
    let keys: Vec<String> = { let mut seen = std::collections::HashSet::new(); pool.iter().filter(|s| seen.insert(s.to_ascii_uppercase())).cloned().collect() };
    for (i, k) in keys.iter().enumerate() { let c = *rng.pick(&CTORS); hm.insert(mk_owned(c, k.as_bytes()).unwrap(), i); bm.insert(mk_owned(c, k.as_bytes()).unwrap(), i); }
    if hm.len() != keys.len() || bm.len() != keys.len() { or.fail(format!("maps merged distinct names: {} / {} entries for {} keys", hm.len(), bm.len(), keys.len()), "# case flat-oracle".into(), "map-size".into()); }
    for (i, k) in keys.iter().enumerate() {
        for sp in [k.to_ascii_uppercase(), k.to_ascii_lowercase(), mixed(k, &mut rng)] {
            let q = VarName::new(&sp);
            if hm.get(q) != Some(&i) || bm.get(q) != Some(&i) {
                or.fail(format!("map lookup of key {k:?} by spelling {sp:?} failed (hash map {:?}, b-tree map {:?})", hm.get(q), bm.get(q)),
                    format!("# case flat-oracle\nowned.rel str {} str {}", hexd(k.as_bytes()), hexd(sp.as_bytes())), format!("lookup:{k}:{sp}"));
            }
            or.eval(("lookup", k, &sp), *k != sp);
        }
    }
    // static names: lookup through StaticVarName and through strings
    for n in names.iter().take(ctx.n(30, 200) as usize) {
        let st: StaticVarName = n.parse().unwrap();
        let mut m: HashMap<OwnedVarName, u8> = HashMap::new();
        m.insert(OwnedVarName::from(st), 1);
        let lo = n.to_ascii_lowercase();
        if m.get(VarName::new(&lo)) != Some(&1) || m.get(<&VarName>::from(st)) != Some(&1) || !m.contains_key(&OwnedVarName::from(lo.clone())) {
            or.fail(format!("static key {n} not found by another spelling/representation"), format!("# case flat-oracle\nowned.rel static {} string {}", hex(n.as_bytes()), hex(lo.as_bytes())), format!("slookup:{n}"));
        }
    }
    // partial_cmp = Some(cmp), Display = the stored string, &VarName -> &str: oracle only
    {
        let mut pool: Vec<String> = names.iter().take(40).cloned().collect();
        for n in names.iter().take(20) { pool.push(n.to_ascii_lowercase()); }
        pool.extend(["".to_string(), "x_caf\u{e9}".to_string(), "X_CAF\u{e9}".to_string(), "a".repeat(17), "A".repeat(16) + "b"]);
        for a in &pool { for b in pool.iter().take(25) {
            let (va, vb) = (VarName::new(a), VarName::new(b));
            if va.partial_cmp(vb) != Some(va.cmp(vb)) { or.fail(format!("VarName partial_cmp != Some(cmp) for {a:?}, {b:?}"), "# case flat-oracle\n# partial_cmp".into(), "partial-cmp".into()); }
            let (oa, ob) = (OwnedVarName::from(a.clone()), OwnedVarName::from(b.clone()));
            if oa.partial_cmp(&ob) != Some(oa.cmp(&ob)) { or.fail(format!("OwnedVarName partial_cmp != Some(cmp) for {a:?}, {b:?}"), "# case flat-oracle\n# partial_cmp".into(), "partial-cmp-owned".into()); }
            if (oa.cmp(&ob) == std::cmp::Ordering::Equal) != (oa == ob) { or.fail(format!("OwnedVarName cmp/eq disagree for {a:?}, {b:?}"), "# case flat-oracle\n# cmp-eq".into(), "cmp-eq-owned".into()); }
        }
            let va = VarName::new(a);
            if va.to_string() != *a { or.fail(format!("VarName Display of {a:?} is {:?}", va.to_string()), "# case flat-oracle\n# display".into(), "display".into()); }
            let s: &str = va.into(); if s != a { or.fail(format!("&VarName -> &str of {a:?} is {s:?}"), "# case flat-oracle\n# into-str".into(), "into-str".into()); }
            let oa = OwnedVarName::from(a.clone());
            if oa.to_string() != a.to_ascii_uppercase() { or.fail(format!("OwnedVarName Display of {a:?} is {:?}", oa.to_string()), "# case flat-oracle\n# display".into(), "display-owned".into()); }
        }
        for w in names.windows(2).take(60) { if let (Ok(x), Ok(y)) = (w[0].parse::<StaticVarName>(), w[1].parse::<StaticVarName>()) {
            if x.partial_cmp(&y) != Some(x.cmp(&y)) { or.fail("StaticVarName partial_cmp != Some(cmp)".into(), "# case flat-oracle\n# partial_cmp".into(), "partial-cmp-static".into()); }
            if x.to_string() != w[0] { or.fail(format!("StaticVarName Display of {} is {}", w[0], x), "# case flat-oracle\n# display".into(), "display-static".into()); } } }
        or.eval_bulk(pool.len() as u64 * 25, pool.len() as u64 * 25, "api-corners");
    }
    or.count_n("corr_ops", log.nops);
    log.finish();
    or.write(&ctx.dir);
}
