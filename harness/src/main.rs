//! Correspondence + oracle harness for the Lean model of fastcgi-server.
//! Usage: fcgi-harness <property> <quick|thorough> <seed> <outdir> [--replay <file>] [--widen]
mod util;
mod exec;
mod mock;
mod runloop;
mod c15;
mod c16;
mod c17;
mod c19;
mod c20;
mod gen;
mod reqfam;
mod strfam;
mod asyncfam;
mod runfam;
mod runnerfam;

use util::*;

fn main() {
    let args: Vec<String> = std::env::args().collect();
    if args.len() < 5 {
        eprintln!("usage: fcgi-harness <property> <quick|thorough> <seed> <outdir> [--replay f] [--widen]");
        std::process::exit(2);
    }
    let prop = args[1].clone();
    let tier_thorough = args[2] == "thorough";
    let seed: u64 = args[3].parse().expect("seed");
    let dir = std::path::PathBuf::from(&args[4]);
    std::fs::create_dir_all(&dir).expect("outdir");
    let mut replay = None;
    let mut widen = false;
    let mut i = 5;
    while i < args.len() {
        match args[i].as_str() {
            "--replay" => { replay = Some(std::path::PathBuf::from(&args[i + 1])); i += 2; }
            "--widen" => { widen = true; i += 1; }
            x => { eprintln!("unknown arg {x}"); std::process::exit(2); }
        }
    }
    // keep panic output out of the way: every call is wrapped in catch_unwind and reported
    if std::env::var_os("VERIF_PANIC_TRACE").is_none() { std::panic::set_hook(Box::new(|_| {})); }
    let mut ctx = Ctx { tier_thorough, seed, dir, rng: Rng::new(seed), replay, widen };
    if let Some(r) = ctx.replay.clone() { exec::replay(&ctx, &r); return; }
    match prop.as_str() {
        "C01" => reqfam::run_c01(&mut ctx),
        "C06" => reqfam::run_c06(&mut ctx),
        "C02" => strfam::run_c02(&mut ctx),
        "C07" => runfam::run_c07(&mut ctx),
        "C08" => runfam::run_c08(&mut ctx),
        "C11" => runfam::run_c11(&mut ctx),
        "C13" => runnerfam::run_c13(&mut ctx),
        "C12" => runfam::run_c12(&mut ctx),
        "C14" => {
            let mut log = Log::new(&ctx.dir); let mut im = exec::Impl::new();
            let mut or = Oracle::new("C14", "(a) shutdown requested before every poll index of scripted connections (before the first read, between requests, during the preamble, during the handler, during close); (b) histories of token drops interleaved with polls of the shutdown future, 0..3 live tokens, with counting wakers. Non-trivial: all; distinct by case");
            exec::witness_corpus(&["C14_", "C14a_"], &mut log, &mut im, &mut or);
            runfam::c14_conn(&mut ctx, &mut log, &mut im, &mut or);
            runnerfam::c14_wg(&mut ctx, &mut log, &mut im, &mut or);
            or.count_n("corr_ops", log.nops); log.finish(); or.write(&ctx.dir);
        }
        "C09" => asyncfam::run_c09(&mut ctx),
        "C10" => asyncfam::run_c10(&mut ctx),
        "C05" => strfam::run_c05(&mut ctx),
        "C18" => strfam::run_c18(&mut ctx),
        "C03" => {
            let mut log = Log::new(&ctx.dir); let mut im = exec::Impl::new();
            let mut or = Oracle::new("C03", "malformed and valid traffic under >= 3 chunkings each (metamorphic), parse(0), calls after done/fatal, conversions at non-final states; catch_unwind around every call with debug-assertions and overflow-checks on");
            reqfam::c03_req(&mut ctx, &mut log, &mut im, &mut or);
            strfam::c03_str(&mut ctx, &mut log, &mut im, &mut or);
            or.count_n("corr_ops", log.nops); log.finish(); or.write(&ctx.dir);
        }
        "C04" => {
            let mut log = Log::new(&ctx.dir); let mut im = exec::Impl::new();
            let mut or = Oracle::new("C04", "noise-laden preambles and streams; replies compared byte-for-byte with the specification-side list of owed replies");
            reqfam::c04_req(&mut ctx, &mut log, &mut im, &mut or);
            strfam::c04_str(&mut ctx, &mut log, &mut im, &mut or);
            or.count_n("corr_ops", log.nops); log.finish(); or.write(&ctx.dir);
        }
        "C15" => c15::run(&mut ctx),
        "C16" => c16::run(&mut ctx),
        "C17" => c17::run(&mut ctx),
        "C19" => c19::run(&mut ctx),
        "C20" => c20::run(&mut ctx),
        _ => { eprintln!("unknown property {prop}"); std::process::exit(2); }
    }
}
