//! C16 — name-value codec.
use crate::util::catch;
use crate::exec::{run as ex, Impl};
use crate::util::*;
use crate::gen::nv_enc;
use fastcgi_server::protocol::nv;

type Pair = (Vec<u8>, Vec<u8>);

fn decode_all(bs: &[u8]) -> (Vec<Pair>, usize) {
    let mut it = nv::NVIter::new(bs);
    let ps: Vec<Pair> = (&mut it).map(|(n, v)| (n.to_vec(), v.to_vec())).collect();
    (ps, it.into_inner().len())
}

/// independent encoder from the FastCGI specification
fn spec_len(n: usize) -> Vec<u8> { if n < 128 { vec![n as u8] } else { let b = (n as u32).to_be_bytes(); vec![b[0] | 0x80, b[1], b[2], b[3]] } }
fn spec_enc(p: &Pair) -> Vec<u8> { let mut o = spec_len(p.0.len()); o.extend(spec_len(p.1.len())); o.extend(&p.0); o.extend(&p.1); o }

fn oracle_bytes(or: &mut Oracle, bs: &[u8], prefixes: bool) {
    let r = catch(|| decode_all(bs));
    let (ps, rest) = match r { Ok(x) => x, Err(p) => { or.fail(format!("decoder panicked: {p}"), format!("# case flat-oracle\nnv.all {}", hexd(bs)), format!("panic:{}", hexd(bs))); return; } };
    // yields only complete pairs that re-encode to the consumed prefix (allowing non-canonical length prefixes: compare structure)
    let consumed = bs.len().saturating_sub(rest);
    let mut pos = 0usize;
    for (n, v) in &ps {
        // parse the two length prefixes independently (bounds-checked: a wrong decoder must yield a failure, not crash the oracle)
        let mut lens = [0usize; 2];
        let mut short = false;
        for l in lens.iter_mut() {
            match bs.get(pos) {
                Some(&b) if b < 128 => { *l = b as usize; pos += 1; }
                Some(&b) if pos + 4 <= bs.len() => { *l = (((b & 0x7f) as usize) << 24) | ((bs[pos + 1] as usize) << 16) | ((bs[pos + 2] as usize) << 8) | bs[pos + 3] as usize; pos += 4; }
                _ => { short = true; break; }
            }
        }
        let ok = !short && lens[0] == n.len() && lens[1] == v.len() && bs.get(pos..pos + n.len()) == Some(&n[..]) && bs.get(pos + n.len()..pos + n.len() + v.len()) == Some(&v[..]);
        if !ok { or.fail("decoded pair is not the consecutive sub-slices announced by its length prefixes".into(), format!("# case flat-oracle\nnv.all {}", hexd(bs)), format!("subslice:{}", hexd(bs))); return; }
        pos += n.len() + v.len();
    }
    if pos != consumed { or.fail("undecoded suffix handed back is not exactly what follows the last pair".into(), format!("# case flat-oracle\nnv.all {}", hexd(bs)), format!("suffix:{}", hexd(bs))); }
    // size_hint at every step of the iteration: lower bound <= pairs still to come <= upper bound
    { let mut it = nv::NVIter::new(bs); let mut yielded = 0usize;
      loop { let (lo, hi) = it.size_hint(); let remaining = ps.len() - yielded.min(ps.len());
          if lo > remaining || hi.map_or(false, |h| remaining > h) { or.fail(format!("size_hint {:?} after {yielded} pair(s), but {remaining} more pair(s) are decoded", (lo, hi)), format!("# case flat-oracle\nnv.all {}", hexd(bs)), format!("hint-step:{}", hexd(bs))); break; }
          if it.next().is_none() { break; } yielded += 1; } }
    if ps.len() > bs.len() / 2 { or.fail("more pairs than size_hint upper bound".into(), format!("# case flat-oracle\nnv.all {}", hexd(bs)), format!("hint:{}", hexd(bs))); }
    // stops for good: the remainder does not start with a complete pair
    let (again, _) = decode_all(&bs[consumed..]);
    if !again.is_empty() { or.fail("decoder stopped although a complete pair follows".into(), format!("# case flat-oracle\nnv.all {}", hexd(bs)), format!("stop:{}", hexd(bs))); }
    if prefixes {
        for k in 0..bs.len() {
            let (pp, _) = decode_all(&bs[..k]);
            if pp.len() > ps.len() || pp[..] != ps[..pp.len()] {
                or.fail(format!("pairs of the {k}-byte prefix are not a prefix of the pairs of the whole"), format!("# case flat-oracle\nnv.all {}\nnv.all {}", hexd(&bs[..k]), hexd(bs)), format!("prefix:{}", hexd(bs)));
                break;
            }
        }
    }
}

pub fn run(ctx: &mut Ctx) {
    let mut log = Log::new(&ctx.dir);
    let mut im = Impl::new();
    let mut or = Oracle::new("C16",
        "byte strings: exhaustive over the boundary alphabet {00,01,02,7f,80,81,ff} up to length 6 (7 thorough) with every prefix, plus seeded random strings; \
         pair lists over the boundary lengths {0,1,2,126,127,128,129,255,256,65534,65535,65536,70000}; every op compared with the Lean model and judged by the \
         property oracle (round trip, sub-slices, suffix, prefix-monotone, size hint). Non-trivial: input decodes to >= 1 pair or is rejected after a length prefix; distinct by input bytes");
    let mut rng = ctx.rng.fork();
    let thorough = ctx.tier_thorough || ctx.widen;

    // --- exhaustive small alphabet
    log.case("flat-alphabet");
    let alpha = [0x00u8, 0x01, 0x02, 0x7f, 0x80, 0x81, 0xff];
    let maxlen = if thorough { 7 } else { 6 };
    let mut total = 0u64;
    for len in 0..=maxlen {
        let mut idx = vec![0usize; len];
        loop {
            let bs: Vec<u8> = idx.iter().map(|&i| alpha[i]).collect();
            let o = ex(&mut log, &mut im, &format!("nv.all {}", hexd(&bs)));
            if o.contains("ANOMALY") { or.fail(format!("zero-copy/fused/variant agreement anomaly: {o}"), format!("# case flat-oracle\nnv.all {}", hexd(&bs)), format!("anomaly:{}", hexd(&bs))); }
            oracle_bytes(&mut or, &bs, true);
            or.eval(&bs, len >= 2);
            total += 1;
            let mut k = len;
            loop { if k == 0 { break; } k -= 1; idx[k] += 1; if idx[k] < alpha.len() { break; } idx[k] = 0; if k == 0 { k = usize::MAX; break; } }
            if len == 0 || k == usize::MAX { break; }
        }
    }
    or.count_n("alphabet_strings", total);
    or.exhaustive.push(format!("all strings over the 7-byte boundary alphabet up to length {maxlen}, every prefix"));

    // --- valid pair lists
    log.case("flat-lists");
    let lens: [usize; 13] = [0, 1, 2, 126, 127, 128, 129, 255, 256, 65534, 65535, 65536, 70000];
    for i in 0..ctx.n(300, 6000) {
        let npairs = rng.usize_below(5);
        let mut pairs: Vec<Pair> = vec![];
        let mut budget = 200_000usize;
        for _ in 0..npairs {
            let big = rng.chance(1, 12);
            let pick = |rng: &mut Rng, budget: usize| { let l = if big { *rng.pick(&lens) } else { *rng.pick(&lens[..9]) }; l.min(budget) };
            let nl = pick(&mut rng, budget); budget -= nl;
            let vl = pick(&mut rng, budget); budget -= vl;
            pairs.push((rng.bytes(nl), rng.bytes(vl)));
        }
        let mut wire = vec![];
        let mut ok = true;
        for p in &pairs {
            let before = wire.len();
            // a panic of the encoder is an observation with its input, not a crash of the harness
            let res = match catch(|| { let mut w = vec![]; let r = nv::write((&p.0, &p.1), &mut w); (r, w) }) {
                Ok((r, w)) => { wire.extend_from_slice(&w); r }
                Err(msg) => { ok = false; or.fail(format!("nv::write panicked for a pair of lengths ({}, {}): {msg}", p.0.len(), p.1.len()),
                    format!("# case flat-oracle\nnv.write vec {} {}", hexd(&p.0), hexd(&p.1)), format!("write-panic:{}:{}", p.0.len(), p.1.len())); continue; }
            };
            match res {
                Ok(n) if n == wire.len() - before && wire[before..] == spec_enc(p)[..] => {}
                other => { ok = false; or.fail(format!("nv::write returned {other:?} for a pair of lengths ({}, {}); appended {} bytes", p.0.len(), p.1.len(), wire.len() - before),
                    format!("# case flat-oracle\nnv.write vec {} {}", hexd(&p.0), hexd(&p.1)), format!("write:{}:{}", p.0.len(), p.1.len())); }
            }
        }
        if ok {
            let (ps, rest) = decode_all(&wire);
            if ps != pairs || rest != 0 { or.fail(format!("round trip of {} pairs failed (decoded {}, {} bytes left)", pairs.len(), ps.len(), rest), format!("# case flat-oracle\nnv.all {}", hexd(&wire)), format!("roundtrip:{}", hexd(&wire[..wire.len().min(40)]))); }
        }
        if wire.len() <= 4096 || i % 10 == 0 {
            ex(&mut log, &mut im, &format!("nv.all {}", hexd(&wire)));
            // a truncated copy (incomplete last pair) and a copy with trailing garbage
            if !wire.is_empty() { let cut = rng.usize_below(wire.len()); ex(&mut log, &mut im, &format!("nv.all {}", hexd(&wire[..cut]))); oracle_bytes(&mut or, &wire[..cut], wire.len() <= 300); }
        }
        for p in pairs.iter().take(2) { if p.0.len() + p.1.len() < 2000 {
            let whole = ex(&mut log, &mut im, &format!("nv.write vec {} {}", hexd(&p.0), hexd(&p.1)));
            // the same pair through writers that accept 1 / a few bytes per write call: same count, same bytes
            for k in [1usize, 2 + rng.usize_below(6)] { let o = ex(&mut log, &mut im, &format!("nv.write drip{k} {} {}", hexd(&p.0), hexd(&p.1))); if o != whole { or.fail(format!("nv::write through a writer accepting {k} byte(s) per call gives `{}`, into a Vec `{}`", &o[..o.len().min(80)], &whole[..whole.len().min(80)]), log.replay_block(), format!("C16:drip:{k}")); } }
        } }
        or.eval(&wire, !pairs.is_empty());
        or.count(&format!("pairs={}", pairs.len()));
        if i < 2 { or.sample(format!("list of {} pairs, wire {} bytes: {}…", pairs.len(), wire.len(), hexd(&wire[..wire.len().min(24)]))); }
    }

    // --- bounded writers: every capacity around the encoded size
    log.case("flat-bounded");
    for _ in 0..ctx.n(60, 1500) {
        let p: Pair = (rng.bytes(*rng.clone().pick(&[0usize, 1, 3, 127, 128, 130])), rng.bytes(*rng.clone().pick(&[0usize, 1, 2, 127, 128])));
        let mut r2 = rng.fork();
        let total = spec_enc(&p).len();
        for cap in 0..=(total + 1) {
            if total > 40 && cap > 12 && cap + 6 < total && r2.chance(9, 10) { continue; }
            let o = ex(&mut log, &mut im, &format!("nv.write {cap} {} {}", hexd(&p.0), hexd(&p.1)));
            let okexp = cap >= total;
            if o.starts_with("ok") != okexp { or.fail(format!("nv::write into a {cap}-byte slice (needs {total}) returned `{o}`"), format!("# case flat-oracle\nnv.write {cap} {} {}", hexd(&p.0), hexd(&p.1)), format!("bounded:{cap}:{total}")); }
            or.eval((cap, &p), true);
        }
    }
    // oversized lengths are rejected with InvalidInput (2^31 bytes of zeros, allocated once in thorough only)
    if thorough {
        let big = vec![0u8; (1usize << 31) + 1];
        let r = nv::write((&big[..1 << 31], b""), std::io::sink());
        if !matches!(&r, Err(e) if e.kind() == std::io::ErrorKind::InvalidInput) { or.fail(format!("nv::write accepted a 2^31-byte name: {r:?}"), "# case flat-oracle".into(), "oversize".into()); }
        let r = nv::write((b"x", &big[..]), std::io::sink());
        if !matches!(&r, Err(e) if e.kind() == std::io::ErrorKind::InvalidInput) { or.fail(format!("nv::write accepted a 2^31+1-byte value: {r:?}"), "# case flat-oracle".into(), "oversize".into()); }
        let r = nv::write((&big[..(1 << 31) - 1], b""), std::io::sink());
        if !matches!(&r, Ok(n) if *n == (1usize << 31) - 1 + 5) { or.fail(format!("nv::write rejected a 2^31-1-byte name: {r:?}"), "# case flat-oracle".into(), "oversize".into()); }
        or.eval_bulk(3, 3, "oversize");
    }

    // --- random byte strings, incl. prefixes announcing more than remains / more than 2^31
    log.case("flat-random");
    for i in 0..ctx.n(4000, 150_000) {
        let n = match rng.below(10) { 0..=5 => rng.usize_below(24), 6..=8 => rng.usize_below(300), _ => rng.usize_below(4096) };
        let mut bs = rng.bytes(n);
        match rng.below(4) {
            0 => for b in bs.iter_mut() { if rng.chance(3, 4) { *b &= 0x0f; } },  // small lengths -> many pairs
            1 => if n >= 8 { bs[0] = 0xff; bs[1] = 0xff; },                       // announces > 2^31-ish
            _ => {}
        }
        let o = ex(&mut log, &mut im, &format!("nv.all {}", hexd(&bs)));
        if o.contains("ANOMALY") { or.fail(format!("anomaly: {o}"), format!("# case flat-oracle\nnv.all {}", hexd(&bs)), format!("anomaly:{}", hexd(&bs))); }
        oracle_bytes(&mut or, &bs, n <= 64);
        or.eval(&bs, !o.starts_with("0 "));
        if i == 0 { or.sample(format!("nv.all {} -> {}", hexd(&bs[..bs.len().min(32)]), &o[..o.len().min(80)])); }
    }
    // --- both length prefixes in the 4-byte form with values near 2^31: their sum (plus the 8 header bytes) passes 2^32 — an
    // incomplete pair like any other, at the start or behind valid pairs, with 0..40 bytes following
    log.case("flat-huge-both");
    let tops: [u32; 9] = [0x7fff_ffff, 0x7fff_fffe, 0x7fff_fffc, 0x7fff_fff8, 0x7fff_fff0, 0x7fff_ff00, 0x4000_0000, 0x0000_0080, 0x0001_0000];
    for &a in &tops { for &b in &tops {
        for lead in [0usize, 1, 2] {
            let mut bs: Vec<u8> = vec![];
            for k in 0..lead { bs.extend(nv_enc(&[b'A' + k as u8], b"v")); }
            bs.extend((a | 0x8000_0000).to_be_bytes()); bs.extend((b | 0x8000_0000).to_be_bytes());
            bs.extend(rng.bytes(rng.clone().usize_below(40)));
            let o = ex(&mut log, &mut im, &format!("nv.all {}", hexd(&bs)));
            if o.contains("ANOMALY") || o.starts_with("panic") { or.fail(format!("two near-maximal length prefixes: {}", &o[..o.len().min(80)]), format!("# case flat-oracle\nnv.all {}", hexd(&bs)), "C16:huge-both".into()); }
            oracle_bytes(&mut or, &bs, false);
            or.eval(&bs, true);
        }
    } }
    or.count_n("corr_ops", log.nops);
    log.finish();
    or.write(&ctx.dir);
}
