//! Run-loop family (through the real `Token::run`): C07, C08, C11, C12, C14(a).
use crate::asyncfam::{decode_log, rd_script, wr_script};
use crate::exec::{run as ex, Impl};
use crate::gen::*;
use crate::strfam::role_streams;
use crate::util::*;

#[derive(Clone, Debug, PartialEq)]
pub enum Ret { Ok(u32, u8), Err(&'static str) }   // (app status, protocol status) | handler error kind

#[derive(Clone, Debug)]
pub struct ReqPlan {
    pub pre: Preamble,
    pub contents: Vec<(u8, Vec<u8>)>,
    pub recs: Vec<Rec>,            // preamble + stream records
    pub pre_len: usize,            // number of leading records that form the preamble
    pub owed: Vec<u8>,             // replies owed for the noise of this request, in order
    pub script: String,
    pub reads_all: Vec<u8>,        // streams the script reads to the end with `R`
    pub outs: Vec<(u8, Vec<u8>)>,  // (stream type, bytes) in write order
    pub ret: Ret,
    pub opens: bool,
    /// records after the last stream record (only for a role without input streams: management traffic behind the preamble)
    pub tail_noise: bool,
}

fn status_token(rng: &mut Rng) -> (String, Ret) {
    match rng.below(8) {
        0 => ("Xoverloaded:0".into(), Ret::Ok(0, 2)),
        1 => ("Xunknownrole:0".into(), Ret::Ok(0, 3)),
        2 => ("Xabort:0".into(), Ret::Ok(u32::from_be_bytes(*b"ABRT"), 0)),
        3 => ("Xcomplete:4294967295".into(), Ret::Ok(u32::MAX, 0)),
        4 => ("".into(), Ret::Ok(0, 0)),   // script simply ends: Ok(SUCCESS)
        _ => { let c = rng.next() as u32 % 1000; (format!("Xcomplete:{c}"), Ret::Ok(c, 0)) }
    }
}

pub fn gen_req(rng: &mut Rng, keep: bool, noise_level: u64, mc: usize, bufsize: usize, allow_handler_err: bool) -> ReqPlan {
    // the requests of one connection get distinct ids (the low nibble counts gen_req calls) below 0x4000; foreign-id noise stays
    // at or above 0x4000 (gen::FOREIGN_MIN), so no reply can be attributed to the wrong request of the connection
    static SEQ: std::sync::atomic::AtomicUsize = std::sync::atomic::AtomicUsize::new(0);
    crate::gen::FOREIGN_MIN.store(0x4000, std::sync::atomic::Ordering::Relaxed);
    let seq = SEQ.fetch_add(1, std::sync::atomic::Ordering::Relaxed);
    let id = (((1 + rng.below(0x3fe)) as u16) << 4) | (seq % 16) as u16;
    let role = rng.range(1, 3) as u16;
    let flags = (rng.next() as u8 & 0xfe) | keep as u8;
    let pairs: Vec<(Vec<u8>, Vec<u8>)> = gen_pairs(rng, false).into_iter().filter(|(n, v)| n.len() + v.len() + 13 <= bufsize).collect();
    let pre = Preamble { id, role, flags, pairs };
    let built = build_preamble(rng, &pre, noise_level, mc, 40);
    let mut recs = built.recs.clone();
    let pre_len = recs.len();
    let mut owed = built.expected_out.clone();
    let mut contents = vec![];
    for &s in role_streams(role) {
        // buffers beyond 2^16 (run_c07's large cases) come with bodies that fill them: whole 65535-byte records inside one read
        let len = if bufsize > 65_535 { 60_000 + rng.usize_below(90_000) } else { match rng.below(5) { 0 => 0, 1 => 1 + rng.usize_below(8), _ => rng.usize_below(200) } };
        let c = rng.bytes(len);
        let mut srecs = build_stream(rng, id, s, &c, noise_level, mc, &mut owed, true);
        // a one-request-at-a-time client sends no BeginRequest while a request is in progress
        let before = srecs.len(); srecs.retain(|r| r.rtype != T_BEGIN);
        if srecs.len() != before { // recompute owed without those records
            owed = built.expected_out.clone();
            let mut all: Vec<Rec> = recs[pre_len..].to_vec(); all.extend(srecs.clone());
            for r in &all { if !((r.rtype == T_STDIN || r.rtype == T_DATA) && r.id == id) { owed.extend(spec_owed(Phase::Active(id), r, mc)); } }
        }
        recs.extend(srecs);
        contents.push((s, c));
    }
    // a role WITHOUT input streams (Authorizer): management / unknown-type / foreign-id traffic may still follow the preamble while the
    // request is active; it is parsed when the handler polls its (empty) input, in close(), or — with keep-conn — by the next
    // request parser.  No BeginRequest (a one-request-at-a-time client) and nothing of the request's own id.
    let mut tail_noise = false;
    if role_streams(role).is_empty() && noise_level > 0 {
        let n = rng.usize_below(4);
        for _ in 0..n { let r = noise_stream(rng, Phase::Active(id)); if r.rtype == T_BEGIN || r.id == id { continue; } owed.extend(spec_owed(Phase::Active(id), &r, mc)); recs.push(r); tail_noise = true; }
    }
    // ---- handler script
    let mut ops: Vec<String> = vec![]; let mut reads_all = vec![]; let mut outs = vec![];
    let streams = role_streams(role);
    if streams.is_empty() { match rng.below(4) { 0 => ops.push(format!("r{}", 1 + rng.usize_below(40))), 1 => ops.push("R".into()), 2 => { ops.push("f".into()); } _ => {} } }
    // (the model's handler fuel now counts the parser's buffer capacity, so read-to-end is fine with > 64 KiB buffers too)
    let large = bufsize > 65_535;
    let read_mode = rng.below(5);
    for (i, &s) in streams.iter().enumerate() {
        if i > 0 { ops.push(format!("s{s}")); }
        match read_mode {
            0 => { ops.push("R".into()); reads_all.push(s); }
            1 => { let n = 1 + rng.usize_below(3); for _ in 0..n { ops.push(format!("r{}", if large { *rng.pick(&[0usize, 1, 39, 8192, 65_535, 65_536, 70_000]) } else { rng.usize_below(40) })); } }
            2 => { let n = 1 + rng.usize_below(3); for _ in 0..n { ops.push("f".into()); ops.push(format!("c{}", rng.usize_below(30))); } }
            3 => { ops.push("f".into()); ops.push("c9999".into()); ops.push("R".into()); reads_all.push(s); }
            _ => {}
        }
    }
    // a Filter only becomes writeable at its final stream; `w` gets it there (discarding unread earlier streams)
    let wants_output = rng.chance(3, 4);
    let mut opens = false; let mut leak = false;
    if wants_output {
        if streams.len() > 1 { ops.push("w".into()); }
        opens = true;
        ops.push("o6".into()); ops.push("o7".into());
        let n = rng.usize_below(5);
        for _ in 0..n {
            let which = rng.usize_below(2);
            let len = match rng.below(6) { 0 => 0, 1 => 1, 2 => 8, _ => 1 + rng.usize_below(120) };
            let data = rng.bytes(len);
            ops.push(format!("W{which}:{}", hexd(&data)));
            if !data.is_empty() { outs.push((if which == 0 { T_STDOUT } else { T_STDERR }, data)); }
            if rng.chance(1, 3) { ops.push(format!("F{which}")); }
        }
        // rarely a StreamWriter is still alive when the handler returns: close() must fail ("StreamWriter(s) not dropped"),
        // no epilogue is written and the connection is torn down
        leak = allow_handler_err && rng.chance(1, 12);
        match (leak, rng.below(3)) { (false, _) => { ops.push("d0".into()); ops.push("d1".into()); } (true, 0) => ops.push("d0".into()), (true, 1) => ops.push("d1".into()), _ => {} }
    }
    let (tok, ret) = if leak { let (t, _) = status_token(rng); (t, Ret::Err("writers")) } else if allow_handler_err && rng.chance(1, 10) { let k = *rng.pick(&["other", "invalid", "eof", "aborted"]); (format!("E{k}"), Ret::Err(k)) } else { status_token(rng) };
    if !tok.is_empty() { ops.push(tok); }
    let script = if ops.is_empty() { "-".to_string() } else { ops.join(",") };
    ReqPlan { pre, contents, recs, pre_len, owed, script, reads_all, outs, ret, opens, tail_noise }
}

pub fn field<'a>(obs: &'a str, key: &str) -> Option<&'a str> {
    obs.split(' ').find_map(|t| t.strip_prefix(key).and_then(|r| r.strip_prefix('=')))
}

pub struct Trace { pub events: Vec<String>, pub fin: String, pub wlog: Vec<u8> }
pub fn parse_trace(obs: &str) -> Trace {
    let toks: Vec<&str> = obs.split(' ').collect();
    let n = toks.len();
    let wlog = unhex(toks[n - 1].strip_prefix("wlog=").unwrap_or("-"));
    Trace { events: toks[..n - 2].iter().map(|s| s.to_string()).collect(), fin: toks[n - 2].to_string(), wlog }
}

/// The C07 oracle for a connection of `plans` processed to the point the trace shows.
pub fn check_conn(or: &mut Oracle, log: &Log, prop: &str, plans: &[ReqPlan], tr: &Trace, faults: bool) {
    let (recs, partial, bad) = decode_log(&tr.wlog);
    if let Some(b) = bad { or.fail(format!("bytes written to the client are not a record sequence: {b}"), log.replay_block(), format!("{prop}:log-malformed")); return; }
    if !partial.is_empty() && !faults { or.fail(format!("byte log ends inside a record ({} stray bytes)", partial.len()), log.replay_block(), format!("{prop}:log-partial")); }
    if let Some(a) = tr.events.iter().find(|e| e.starts_with("ACC!")) { or.fail(format!("Request accessors (env_len / contains_var / get_var / get_var_str) disagree with env_iter: {a}"), log.replay_block(), format!("{prop}:accessors")); }
    // handler invocations
    let hs: Vec<&String> = tr.events.iter().filter(|e| e.starts_with("HS(")).collect();
    let he: Vec<&String> = tr.events.iter().filter(|e| e.starts_with("HE(")).collect();
    // expected number of requests served: until a non-keepconn request, a handler error, or the end
    let mut served = 0;
    for p in plans { served += 1; if p.pre.flags & 1 == 0 || matches!(p.ret, Ret::Err(_)) || (p.opens && false) { break; } }
    if !faults && hs.len() != served { or.fail(format!("{} handler invocation(s) for {} request(s) that should have been served", hs.len(), served), log.replay_block(), format!("{prop}:handler-count")); }
    for (i, h) in hs.iter().enumerate() {
        let Some(p) = plans.get(i) else { or.fail("handler invoked more often than requests were sent".into(), log.replay_block(), format!("{prop}:handler-count")); break; };
        let exp = format!("HS({},{},{})", p.pre.role, p.pre.flags, env_fmt(&spec_env(&p.pre.pairs)));
        if **h != exp { or.fail(format!("request {}: handler saw `{}`, client sent `{}`", i + 1, &h[..h.len().min(100)], &exp[..exp.len().min(100)]), log.replay_block(), format!("{prop}:handler-request")); }
    }
    // what the handlers read
    let mut hi = 0usize; let mut ri = 0usize;
    for e in &tr.events {
        if e.starts_with("HS(") { hi += 1; ri = 0; }
        if let Some(rest) = e.strip_prefix("R=") { if hi >= 1 { if let Some(p) = plans.get(hi - 1) {
            let data = unhex(rest.split(':').nth(1).unwrap_or("-"));
            if let Some(&s) = p.reads_all.get(ri) { let c = &p.contents.iter().find(|(t, _)| *t == s).unwrap().1;
                // mode 3 (`f,c9999,R`) consumed a first buffer-full before: then `R` returns the rest — compare as suffix
                if !(c == &data || c.ends_with(&data)) { or.fail(format!("request {hi}: handler read {} bytes of stream {s}, client sent {}", data.len(), c.len()), log.replay_block(), format!("{prop}:handler-stream")); } }
            ri += 1; } } }
    }
    // the client's view: per request its own records
    let mut owed_all: Vec<u8> = vec![]; for p in plans.iter().take(hs.len().max(1)) { owed_all.extend(&p.owed); }
    let mut mgmt: Vec<u8> = vec![];
    let ids: Vec<u16> = plans.iter().map(|p| p.pre.id).collect();
    let mut per_req: Vec<Vec<&Rec>> = vec![vec![]; plans.len()];
    let mut mgmt_before_end: Vec<Option<usize>> = vec![None; plans.len()];   // management-reply bytes already written when EndRequest(i) went out
    for r in &recs {
        match ids.iter().position(|&i| i == r.id) { Some(k) if r.rtype == T_STDOUT || r.rtype == T_STDERR || r.rtype == T_END => { if r.rtype == T_END && mgmt_before_end[k].is_none() { mgmt_before_end[k] = Some(mgmt.len()); } per_req[k].push(r) }, _ => mgmt.extend(r.ser()) }
    }
    // "EndRequest after all pending management replies": a handler that read all its streams to the end had every reply-owing record
    // of its request parsed before it returned, so those replies precede its EndRequest (replies for UNREAD input legitimately follow)
    if !faults && prop == "C07" {
        let mut upto = 0usize;
        for (i, p) in plans.iter().enumerate().take(hs.len()) {
            upto += p.owed.len();
            let reads_everything = !p.tail_noise && role_streams(p.pre.role).iter().all(|s| p.reads_all.contains(s));
            if let (true, Some(seen)) = (reads_everything && matches!(p.ret, Ret::Ok(..)), mgmt_before_end[i]) {
                if seen < upto && owed_all.starts_with(&mgmt) { or.fail(format!("request {}: EndRequest was written when only {seen} of the {upto} bytes of management replies owed so far had gone out (the handler had read all input)", i + 1), log.replay_block(), format!("{prop}:endrequest-before-replies")); break; }
            }
        }
    }
    // completeness: when every served request ran to a normal end and everything the client sent was parsed by someone (a keep-conn
    // request's unread rest is parsed by the next parse_request; a final request without keep-conn whose handler read all its streams
    // to the end left nothing unparsed), every owed reply must have been written by the time the task stalls or returns
    let all_ok = !faults && hs.len() == served && he.len() == hs.len() && (tr.fin == "STALL" || tr.fin == "RET")
        && plans.iter().take(served).all(|p| matches!(p.ret, Ret::Ok(..)) && (p.pre.flags & 1 == 1 || (!p.tail_noise && role_streams(p.pre.role).iter().all(|s| p.reads_all.contains(s)))));
    if all_ok && prop == "C07" {
        if mgmt.len() < owed_all.len() && owed_all.starts_with(&mgmt) { or.fail(format!("only {} of the {} bytes of owed management replies were written although every request ended normally and all input was parsed", mgmt.len(), owed_all.len()), log.replay_block(), format!("{prop}:replies-missing")); }
        or.count("connections_checked_for_reply_completeness");
    }
    if !owed_all.starts_with(&mgmt) && !faults { or.fail(format!("management replies written ({} bytes) are not the owed replies in arrival order ({} bytes owed)", mgmt.len(), owed_all.len()), log.replay_block(), format!("{prop}:replies")); }
    for (i, p) in plans.iter().enumerate() {
        let rs = &per_req[i];
        let ended = he.get(i).is_some();
        if i >= hs.len() { if !rs.is_empty() { or.fail(format!("records for request {} although its handler never ran", i + 1), log.replay_block(), format!("{prop}:phantom-records")); } continue; }
        let n_end = rs.iter().filter(|r| r.rtype == T_END).count();
        match (&p.ret, ended) {
            (Ret::Ok(app, ps), true) if !faults => {
                if n_end != 1 { or.fail(format!("request {}: {} EndRequest records (exactly one expected)", i + 1, n_end), log.replay_block(), format!("{prop}:endrequest-count")); continue; }
                // epilogue: [Stdout∅][Stderr∅][EndRequest] last
                let k = rs.len();
                let tail_ok = k >= 3 && rs[k - 3].rtype == T_STDOUT && rs[k - 3].content.is_empty() && rs[k - 2].rtype == T_STDERR && rs[k - 2].content.is_empty() && rs[k - 1].rtype == T_END;
                if !tail_ok { or.fail(format!("request {}: records do not end with empty Stdout, empty Stderr, EndRequest", i + 1), log.replay_block(), format!("{prop}:epilogue")); continue; }
                let e = rs[k - 1];
                let exp_body: Vec<u8> = { let a = app.to_be_bytes(); vec![a[0], a[1], a[2], a[3], *ps, 0, 0, 0] };
                if e.content != exp_body { or.fail(format!("request {}: EndRequest body {} but the handler returned app status {app}, protocol status {ps}", i + 1, hex(&e.content)), log.replay_block(), format!("{prop}:endrequest-status")); }
                for st in [T_STDOUT, T_STDERR] {
                    let got: Vec<u8> = rs[..k - 3].iter().filter(|r| r.rtype == st).flat_map(|r| r.content.clone()).collect();
                    let want: Vec<u8> = p.outs.iter().filter(|(t, _)| *t == st).flat_map(|(_, d)| d.clone()).collect();
                    if got != want { or.fail(format!("request {}: stream {st} carried {} bytes, handler wrote {}", i + 1, got.len(), want.len()), log.replay_block(), format!("{prop}:handler-output")); }
                    if rs[..k - 3].iter().any(|r| r.rtype == st && (r.content.is_empty() || r.pad.len() >= 8 || (r.content.len() + r.pad.len()) % 8 != 0)) { or.fail(format!("request {}: malformed or empty data record before the epilogue", i + 1), log.replay_block(), format!("{prop}:record-format")); }
                }
            }
            (Ret::Err(_), true) if !faults => { if n_end != 0 { or.fail(format!("request {}: handler returned an I/O error but an EndRequest was sent", i + 1), log.replay_block(), format!("{prop}:endrequest-after-error")); } }
            _ => { if n_end > 1 { or.fail(format!("request {}: {} EndRequest records", i + 1, n_end), log.replay_block(), format!("{prop}:endrequest-count")); } }
        }
    }
}

pub fn conn_op(plans: &[ReqPlan], b: usize, mc: usize, end: &str, rd: &str, wr: &str, fl: &str, stop: &str, gates: bool) -> String { conn_op_skip(plans, b, mc, end, rd, wr, fl, stop, gates, None) }
/// `skip`: a request whose handler never runs (aborted during Params) has no script: scripts are consumed per handler invocation
pub fn conn_op_skip(plans: &[ReqPlan], b: usize, mc: usize, end: &str, rd: &str, wr: &str, fl: &str, stop: &str, gates: bool, skip: Option<usize>) -> String {
    let segs: Vec<String> = plans.iter().enumerate().map(|(i, p)| { let h = hexd(&ser_all(&p.recs)); if i == 0 || !gates { h } else { format!("{h}@I{}", plans[i - 1].pre.id) } }).collect();
    let mut hs: Vec<String> = plans.iter().enumerate().filter(|(i, _)| Some(*i) != skip).map(|(_, p)| p.script.clone()).collect();
    if hs.is_empty() { hs.push("-".into()); }
    format!("t.run B={b} mc={mc} in={} end={end} rd={rd} wr={wr} fl={fl} stop={stop} h={}", segs.join(","), hs.join(";"))
}

fn fl_script(rng: &mut Rng) -> String { let n = rng.usize_below(5); if n == 0 { "-".into() } else { (0..n).map(|_| if rng.chance(1, 3) { "P" } else { "O" }).collect::<Vec<_>>().join(",") } }

// =====================================================================================================  C07
pub fn run_c07(ctx: &mut Ctx) {
    let mut log = Log::new(&ctx.dir);
    let mut im = Impl::new();
    let mut or = Oracle::new("C07",
        "connections of 1..4 requests x 3 roles x keep-connection on/off x bodies (empty .. multi-record) x management / unknown-type / foreign-id noise x handler family (read all / part / nothing via read or fill_buf+consume; 0..4 chunks to stdout/stderr with flushes; every ExitStatus kind, handler I/O errors) \
         x transports answering reads and writes with 1..n bytes or Pending; the client releases request i+1 only after EndRequest i reached it. Oracle: independent record decoder on the byte log + handler invocation log. Non-trivial: all; distinct by case");
    let mut rng = ctx.rng.fork();
    // the worked examples and replays behind the end-to-end theorems (corpus/C07_e2e_*.txt): compared with the model on every run
    crate::exec::witness_corpus(&["C07_"], &mut log, &mut im, &mut or);
    for ci in 0..ctx.n(1500, 8000) {
        if or.saturated() { or.count("stopped_early_saturated"); break; }
        let k = 1 + rng.usize_below(4);
        let mc = 1 + rng.usize_below(100);
        // a few connections with a buffer beyond 2^16 and bodies of 60..150 KB ("10s to 100s of KiB" per the documentation): reads of
        // >= 65536 bytes at once, whole maximal records buffered, close() skipping tens of KB of unread input
        let large = ci % 150 == 77;
        let k = if large { 2 } else { k };
        let b = if large { *rng.pick(&[66_000usize, 70_000, 131_072]) } else { *rng.pick(&[64usize, 128, 256, 1024, 8192]) };
        if large { or.count("large_buffer_connections"); }
        let nl = rng.below(5);
        let plans: Vec<ReqPlan> = (0..k).map(|i| { let keep = i + 1 < k || rng.chance(1, 2); gen_req(&mut rng, keep, nl, mc, b, true) }).collect();
        let end = if rng.chance(1, 2) { "eof" } else { "pend" };
        let rd_n = if large { *rng.pick(&[0usize, 2, 6]) } else { 60 };   // large: after a few small reads the transport hands over all it has
        let op = conn_op(&plans, b, mc, end, &rd_script(&mut rng, rd_n), &wr_script(&mut rng, 60, false), &fl_script(&mut rng), "none", true);
        log.case(&format!("c07-{ci}"));
        let o = ex(&mut log, &mut im, &op);
        let tr = parse_trace(&o);
        let all_keep = plans.iter().all(|p| p.pre.flags & 1 == 1 && matches!(p.ret, Ret::Ok(..)));
        let expect_fin = if all_keep && end == "pend" { "STALL" } else { "RET" };
        if tr.fin != expect_fin { or.fail(format!("connection task ended with {} (expected {expect_fin}: {})", tr.fin, if expect_fin == "RET" { "the connection is over" } else { "idle, waiting for the next request" }), log.replay_block(), format!("C07:fin-{}", tr.fin)); }
        check_conn(&mut or, &log, "C07", &plans, &tr, false);
        // reuse iff keep-conn and no I/O error: covered by handler-count; additionally nothing is read after a non-reusable request
        or.eval((ci, &op), true);
        or.count(&format!("requests={k}"));
        if ci == 0 { or.sample(format!("{k} request(s), buffer {b}; handler scripts {:?}; trace {}…", plans.iter().map(|p| p.script.chars().take(40).collect::<String>()).collect::<Vec<_>>(), &o[..o.len().min(200)])); }
    }
    // a long-lived connection: hundreds of keep-alive requests on one connection (state that accumulates per request — a counter, a
    // buffer that only grows — shows only here); the client is closed-loop as always, two of the requests are released in one read
    for li in 0..ctx.n(1, 3) {
        let k = 260 + rng.usize_below(60);
        let mc = 1 + rng.usize_below(100);
        let b = *rng.pick(&[64usize, 256, 1024]);
        // every request lets the connection live on and leaves nothing unread (a Responder that reads its input to the end and returns Ok);
        // ids are pairwise distinct so that the oracle can attribute every reply
        let mut ids = std::collections::BTreeSet::new();
        let plans: Vec<ReqPlan> = (0..k).map(|i| loop { let p = gen_req(&mut rng, true, if i % 37 == 5 { 1 } else { 0 }, mc, b, false);
            if matches!(p.ret, Ret::Ok(..)) && p.pre.flags & 1 == 1 && p.pre.role == 1 && p.script.starts_with('R') && !p.tail_noise && ids.insert(p.pre.id) { break p; } }).collect();
        let end = if li % 2 == 0 { "pend" } else { "eof" };
        let op = conn_op(&plans, b, mc, end, &rd_script(&mut rng, 20), &wr_script(&mut rng, 20, false), "-", "none", true);
        log.case(&format!("c07-long-{li}"));
        let o = ex(&mut log, &mut im, &op);
        let tr = parse_trace(&o);
        let all_ok = plans.iter().all(|p| matches!(p.ret, Ret::Ok(..)));
        let expect_fin = if all_ok && end == "pend" { "STALL" } else { "RET" };
        if tr.fin != expect_fin { or.fail(format!("long-lived connection ({k} requests): task ended with {} (expected {expect_fin})", tr.fin), log.replay_block(), format!("C07:long-fin-{}", tr.fin)); }
        check_conn(&mut or, &log, "C07", &plans, &tr, false);
        or.eval((li, "long"), true); or.count("long_lived_connections"); or.count_n("requests_on_long_lived_connections", k as u64);
    }
    or.count_n("corr_ops", log.nops);
    log.finish();
    or.write(&ctx.dir);
}

// =====================================================================================================  C13: the permit lives as long as the connection
/// Connections like C07's, run with a saturated semaphore (`gt=1`): after every poll of the task that returned Pending a
/// fresh `get_token()` is polled once.  Oracle: no probe is Ready before the task is gone; the one after it is.
pub fn c13_conn(ctx: &mut Ctx, log: &mut Log, im: &mut Impl, or: &mut Oracle) {
    let mut rng = ctx.rng.fork();
    for ci in 0..ctx.n(250, 5000) {
        if or.saturated() { or.count("stopped_early_saturated"); break; }
        let k = 1 + rng.usize_below(3);
        let mc = 1 + rng.usize_below(4);
        let b = *rng.pick(&[64usize, 128, 1024, 8192]);
        let nl = rng.below(4);
        let plans: Vec<ReqPlan> = (0..k).map(|i| { let keep = i + 1 < k || rng.chance(1, 3); gen_req(&mut rng, keep, nl, mc, b, true) }).collect();
        let end = if rng.chance(1, 2) { "eof" } else { "pend" };
        // many Pending answers on the write side: close() and the stream writers span several polls
        let op = format!("{} gt=1", conn_op(&plans, b, mc, end, &rd_script(&mut rng, 40), &wr_script(&mut rng, 60, false), &fl_script(&mut rng), "none", true));
        log.case(&format!("c13-conn-{ci}"));
        let o = ex(log, im, &op);
        let tr = parse_trace(&o);
        let probes: Vec<(usize, &String)> = tr.events.iter().enumerate().filter(|(_, e)| e.starts_with("G:")).collect();
        let n = probes.len();
        for (j, (at, e)) in probes.iter().enumerate() {
            let last = j + 1 == n;
            if !last && e.as_str() == "G:R" {
                let nhs = tr.events[..*at].iter().filter(|e| e.starts_with("HS(")).count(); let nhe = tr.events[..*at].iter().filter(|e| e.starts_with("HE(")).count();
                or.fail(format!("max_conns = {mc} and all permits taken, yet get_token() completed while the connection task was still running (probe {j} of {n}; {nhs} handler start(s), {nhe} handler return(s) so far)"), log.replay_block(), "C13:permit-released-early".into());
                break;
            }
            if last && e.as_str() != "G:R" { or.fail("the connection task is gone but its permit was not returned: get_token() still pending".into(), log.replay_block(), "C13:permit-not-returned".into()); }
        }
        if n == 0 { or.fail("no get_token probe in the trace".into(), log.replay_block(), "C13:no-probe".into()); }
        or.count(&format!("conn_probes={}", if n <= 2 { "1-2" } else if n <= 6 { "3-6" } else { "7+" }));
        or.eval(("conn", ci), n >= 2);
    }
}

// =====================================================================================================  C08
pub fn run_c08(ctx: &mut Ctx) {
    let mut log = Log::new(&ctx.dir);
    let mut im = Impl::new();
    let mut or = Oracle::new("C08",
        "a management query (GetValues with a non-empty body, or an unknown-type record) placed before the first request, in the same transport read as the end of a request, between requests, right after Params, or mid-stream while the handler is blocked reading; \
         the peer sends whole records, and after a query withholds every further record until the reply record reached it; all groupings of neighbouring records into reads; handler family; write-side readiness patterns. \
         Executor polls the task only when woken. Failing history = task unfinished, not runnable, peer still waiting for a reply. Non-trivial: all; distinct by case");
    let mut rng = ctx.rng.fork();
    crate::exec::witness_corpus(&["C08_"], &mut log, &mut im, &mut or);
    // corpus first: minimised past failures (each case names the reply record the peer must receive)
    let corpus = std::path::Path::new(env!("CARGO_MANIFEST_DIR")).join("../corpus/C08.txt");
    if let Ok(text) = std::fs::read_to_string(&corpus) {
        let mut expect: Option<Vec<u8>> = None;
        for line in text.lines() {
            if let Some(id) = line.strip_prefix("# case ") { log.case(id); expect = None; }
            else if let Some(h) = line.strip_prefix("# expect-rec ") { expect = Some(unhex(h.trim())); }
            else if line.starts_with("t.run") {
                let o = ex(&mut log, &mut im, line);
                let tr = parse_trace(&o);
                let (recs_out, _, _) = decode_log(&tr.wlog);
                let got = expect.as_ref().map_or(true, |e| recs_out.iter().any(|r| &r.ser() == e));
                let n_end = recs_out.iter().filter(|r| r.rtype == T_END).count();
                if !got || n_end != 1 || (tr.fin != "STALL" && tr.fin != "RET") {
                    or.fail(format!("corpus history {}: the task is suspended waiting for input while the peer still waits for the reply to its query (final {}, {} EndRequest)", log.cur_id, tr.fin, n_end), log.replay_block(), format!("C08:wait-cycle:{}", log.cur_id));
                }
                or.eval(line, true); or.count("corpus_cases");
            }
        }
    }
    for ci in 0..ctx.n(1500, 8000) {
        if or.saturated() { or.count("stopped_early_saturated"); break; }
        let k = 1 + rng.usize_below(2);
        let mc = 1 + rng.usize_below(100);
        let b = *rng.pick(&[128usize, 256, 8192]);
        let mut plans: Vec<ReqPlan> = (0..k).map(|_| gen_req(&mut rng, true, 0, mc, b, false)).collect();
        // all handlers read their input to the end (a handler that never reads is allowed to delay replies: "once the running handler reads input or returns")
        for p in plans.iter_mut() { if p.reads_all.is_empty() && !role_streams(p.pre.role).is_empty() { let pre = role_streams(p.pre.role).iter().enumerate().map(|(i, s)| if i == 0 { "R".to_string() } else { format!("s{s},R") }).collect::<Vec<_>>().join(","); p.script = if p.script == "-" { pre } else { format!("{pre},{}", p.script) }; p.reads_all = role_streams(p.pre.role).to_vec(); } }
        // flatten to a record list with request boundaries, then insert one query at a random position
        let mut recs: Vec<(Rec, usize)> = vec![];   // (record, request index)
        for (i, p) in plans.iter().enumerate() { for r in &p.recs { recs.push((r.clone(), i)); } }
        // sometimes the connection starts with a request that the client aborts during its Params stream, and the query follows the
        // AbortRequest record at once (same transport read): the abort's EndRequest AND the query's reply are owed before the task
        // may wait for more input
        let prelude: Vec<Rec> = if rng.chance(1, 4) { let pb = nv_enc(b"SCRIPT_NAME", b"/aborted"); vec![begin(5, 1, 1, pad_bytes(&mut rng)), Rec::new(T_PARAMS, 5, pb[..1 + rng.usize_below(pb.len() - 1)].to_vec(), pad_bytes(&mut rng)), Rec::new(T_ABORT, 5, vec![], pad_bytes(&mut rng))] } else { vec![] };
        let pos = if prelude.is_empty() { rng.usize_below(recs.len() + 1) } else { 0 };
        let q = if rng.chance(2, 3) { Rec::new(T_GETVALUES, 0, nv_enc(*rng.pick(&VAR_NAMES[..]), b""), pad_bytes(&mut rng)) } else { Rec::new(rng.range(12, 255) as u8, if rng.chance(1, 2) { 0 } else { rng.below(65536) as u16 }, rng.bytes(rng.clone().usize_below(10)), vec![]) };
        let qreq = if pos < recs.len() { recs[pos].1 } else { k - 1 };
        // the query between two requests is sent only after the previous EndRequest (the peer keeps one request outstanding)
        let placement = if !prelude.is_empty() { "right-after-abort-in-params" } else if pos == 0 { "before-first-request" } else if pos == recs.len() { "after-last-request" } else if recs[pos - 1].1 != recs[pos].1 { "between-requests" }
            else { let r = &recs[pos - 1].0; if r.rtype == T_PARAMS && r.content.is_empty() { "right-after-params" } else if r.rtype == T_PARAMS || r.rtype == T_BEGIN { "inside-preamble" } else { "mid-stream" } };
        or.count(&format!("placement={placement}"));
        // The peer: sends records in order; after the query it withholds everything until the reply record arrived; it keeps one
        // request outstanding (request i+1 only after EndRequest i).  A query at a request boundary is sent right after the last
        // record of the finished request (possibly in the same transport read) - the protocol allows that.
        let reply = spec_owed(if pos == 0 || (pos < recs.len() && recs[pos - 1].1 != recs[pos].1) || pos == recs.len() { Phase::Idle } else { Phase::Active(plans[qreq].pre.id) }, &q, mc);
        let mut segs: Vec<String> = vec![];
        let mut cur: Vec<u8> = vec![]; let mut cur_gate = String::new();
        let mut after_query = false;
        for i in 0..=recs.len() {
            if i == pos {
                for r in &prelude { cur.extend(r.ser()); }
                // sometimes another reply-owing record (unknown type) directly in front of the query, in the same transport read: handling
                // the first must not end the processing of what was read
                if prelude.is_empty() && rng.chance(1, 4) { let lead = Rec::new(rng.range(12, 255) as u8, if rng.chance(1, 2) { 0 } else { crate::gen::FOREIGN_MIN.load(std::sync::atomic::Ordering::Relaxed) as u16 + rng.below(100) as u16 }, rng.bytes(rng.clone().usize_below(10)), vec![]); cur.extend(lead.ser()); or.count("unknown_type_record_directly_before_query"); }
                cur.extend(q.ser());
                // flush: everything after the query waits for the reply
                segs.push(format!("{}{}", hexd(&cur), cur_gate)); cur.clear();
                cur_gate = if prelude.is_empty() { format!("@X{}", hex(&reply)) } else { format!("@X{}&I5", hex(&reply)) }; after_query = true;
            }
            if i == recs.len() { break; }
            let (r, ri) = &recs[i];
            if i > 0 && recs[i - 1].1 != *ri {
                // first record of the next request: wait for EndRequest of the previous one (and for the reply, if the query is out)
                if !cur.is_empty() { segs.push(format!("{}{}", hexd(&cur), cur_gate)); cur.clear(); }
                let idg = format!("I{}", plans[recs[i - 1].1].pre.id);
                cur_gate = if after_query && cur_gate.starts_with("@X") { format!("{cur_gate}&{idg}") } else { format!("@{idg}") };
            }
            cur.extend(r.ser());
        }
        if !cur.is_empty() { segs.push(format!("{}{}", hexd(&cur), cur_gate)); }
        let hs: Vec<String> = plans.iter().map(|p| p.script.clone()).collect();
        let op = format!("t.run B={b} mc={mc} in={} end=pend rd={} wr={} fl=- stop=none h={}", segs.join(","), rd_script(&mut rng, 30), wr_script(&mut rng, 30, false), hs.join(";"));
        log.case(&format!("c08-{ci}"));
        let o = ex(&mut log, &mut im, &op);
        let tr = parse_trace(&o);
        // the peer has received the reply?
        let (recs_out, _, _) = decode_log(&tr.wlog);
        let got_reply = recs_out.iter().any(|r| r.ser() == reply);
        let n_end = recs_out.iter().filter(|r| r.rtype == T_END).count();
        if tr.fin != "STALL" && tr.fin != "RET" { or.fail(format!("connection task ended with {}", tr.fin), log.replay_block(), format!("C08:fin-{}", tr.fin)); }
        let k_end = k + if prelude.is_empty() { 0 } else { 1 };
        if !got_reply || n_end != k_end {
            or.fail(format!("query ({}, record type {}) placed {placement}: the task is suspended waiting for input while the peer still waits for {} — {} of {k} requests answered; the two sides wait on each other",
                if q.rtype == T_GETVALUES { "GetValues" } else { "unknown type" }, q.rtype, if got_reply { "nothing it is owed" } else { "the reply to its query" }, n_end), log.replay_block(), format!("C08:wait-cycle:{placement}"));
        }
        or.eval((ci, &op), true);
        if ci == 0 { or.sample(format!("query placed {placement}; segments {}; final {}", segs.len(), tr.fin)); }
    }
    or.count_n("corr_ops", log.nops);
    log.finish();
    or.write(&ctx.dir);
}
fn gate_str(nsegs: usize, ends_before: usize, after_query: bool) -> String {
    if nsegs == 0 { return String::new(); }
    // after the query: wait for the reply record as well as for the EndRequests so far
    if after_query { format!("@R{}", ends_before * 3 + 1) } else { format!("@E{ends_before}") }
}

// =====================================================================================================  C11
pub fn run_c11(ctx: &mut Ctx) {
    let mut log = Log::new(&ctx.dir);
    let mut im = Impl::new();
    let mut or = Oracle::new("C11",
        "an AbortRequest (body 0..64 bytes, padding 0..255) for the request in progress placed after every record position of the preamble and of each input stream, or for a foreign id; handlers that read to the end / read a little / buffered-read / do not read / are already past end-of-stream, propagating or ignoring the read error and returning their own status; \
         followed by 0..2 further requests on the same connection; C07 transport patterns. Oracle: record decoder on the byte log + handler log. Non-trivial: all; distinct by case");
    let mut rng = ctx.rng.fork();
    // the worked examples and replays behind the end-to-end theorems (corpus/C11_e2e_*.txt): compared with the model on every run
    crate::exec::witness_corpus(&["C11_"], &mut log, &mut im, &mut or);
    for ci in 0..ctx.n(2000, 10000) {
        if or.saturated() { or.count("stopped_early_saturated"); break; }
        let k = 1 + rng.usize_below(3);
        let mc = 1 + rng.usize_below(50);
        let b = *rng.pick(&[128usize, 256, 8192]);
        let nl = rng.below(3);
        let mut plans: Vec<ReqPlan> = (0..k).map(|_| gen_req(&mut rng, true, nl, mc, b, false)).collect();
        let j = rng.usize_below(k);
        let foreign = rng.chance(1, 6);
        let pos = 1 + rng.usize_below(plans[j].recs.len());       // after at least the first record
        // the aborted request's own BeginRequest must be before `pos` for the abort to refer to a request in progress
        let begin_idx = plans[j].recs.iter().position(|r| r.rtype == T_BEGIN && r.id == plans[j].pre.id && r.content.len() == 8 && (1..=3).contains(&u16::from_be_bytes([r.content[0], r.content[1]]))).unwrap();
        let pos = pos.max(begin_idx + 1);
        let in_preamble = pos < plans[j].pre_len;     // before the empty Params record was sent
        let aid = if foreign { plans[j].pre.id ^ 0x5555 } else { plans[j].pre.id };
        let abort = Rec::new(T_ABORT, aid, rng.bytes(rng.clone().usize_below(65)), pad_bytes(&mut rng));
        // handler behaviour for the aborted request
        let streams = role_streams(plans[j].pre.role);
        let hmode = rng.below(6);
        let own_status = rng.chance(1, 2);
        let (script, reads): (String, bool) = match hmode {
            0 | 1 => { let pre = streams.iter().enumerate().map(|(i, s)| if i == 0 { "R".to_string() } else { format!("s{s},R") }).collect::<Vec<_>>().join(","); (if pre.is_empty() { "-".into() } else { pre }, true) }
            2 => ("r4,r4,r4,r400".into(), true),
            3 => ("f,c3,f,c999,f,c999".into(), true),
            _ => ("-".into(), false),
        };
        let ignore = hmode == 1 || (hmode >= 2 && rng.chance(1, 2));
        let tail = if own_status { ",Xcomplete:77" } else { "" };
        let script = if script == "-" { if own_status { "Xcomplete:77".to_string() } else { "-".into() } } else { format!("{}{script}{tail}", if ignore { "~" } else { "" }) };
        if !foreign {
            plans[j].script = script.clone();
            plans[j].recs.truncate(pos);
            plans[j].recs.push(abort.clone());
        } else { plans[j].recs.insert(pos, abort.clone()); }
        let op = conn_op_skip(&plans, b, mc, "pend", &rd_script(&mut rng, 40), &wr_script(&mut rng, 40, false), "-", "none", true, if in_preamble && !foreign { Some(j) } else { None });
        log.case(&format!("c11-{ci}"));
        let o = ex(&mut log, &mut im, &op);
        let tr = parse_trace(&o);
        or.count(if foreign { "abort=foreign-id" } else if in_preamble { "abort=during-params" } else { "abort=during-streams" });
        if foreign {
            // ignored entirely
            if tr.fin != "STALL" { or.fail(format!("connection ended with {} after an AbortRequest for a foreign id", tr.fin), log.replay_block(), "C11:foreign-not-ignored".into()); }
            check_conn(&mut or, &log, "C11", &plans, &tr, false);
            or.eval((ci, &op), true);
            continue;
        }
        if tr.fin != "STALL" && tr.fin != "RET" { or.fail(format!("connection task ended with {}", tr.fin), log.replay_block(), format!("C11:fin-{}", tr.fin)); }
        let (recs_out, _, bad) = decode_log(&tr.wlog);
        if bad.is_some() { or.fail("byte log is not a record sequence".into(), log.replay_block(), "C11:log-malformed".into()); continue; }
        let ends: Vec<&Rec> = recs_out.iter().filter(|r| r.rtype == T_END && r.id == aid).collect();
        if ends.len() != 1 { or.fail(format!("{} EndRequest records for the aborted request (exactly one expected; abort {})", ends.len(), if in_preamble { "during Params" } else { "during the input streams" }), log.replay_block(), "C11:endrequest-count".into()); or.eval((ci, &op), true); continue; }
        let body = &ends[0].content;
        let app = u32::from_be_bytes([body[0], body[1], body[2], body[3]]); let ps = body[4];
        let hs: Vec<usize> = tr.events.iter().enumerate().filter(|(_, e)| e.starts_with("HS(")).map(|(i, _)| i).collect();
        if in_preamble {
            // at once, without invoking the handler
            let expected_hs = k - 1;
            if hs.len() != expected_hs { or.fail(format!("abort during Params: {} handler invocations for {} other request(s)", hs.len(), expected_hs), log.replay_block(), "C11:handler-invoked".into()); }
            if ps != 0 || app != 0 { or.fail(format!("abort during Params answered with app status {app}, protocol status {ps}"), log.replay_block(), "C11:status".into()); }
        } else {
            if ps != 0 { or.fail(format!("aborted request answered with protocol status {ps} (RequestComplete expected)"), log.replay_block(), "C11:status".into()); }
            // what did the handler see?
            let saw_abort = tr.events.iter().any(|e| e.contains("!abort-request"));
            let he_j = tr.events.iter().filter(|e| e.starts_with("HE(")).nth(j).cloned().unwrap_or_default();
            let abrt = u32::from_be_bytes(*b"ABRT");
            let exp_app = if he_j == "HE(err:abort-request)" { abrt } else if own_status { 77 } else { 0 };
            if app != exp_app { or.fail(format!("aborted request: app status {app:#x}, expected {exp_app:#x} (handler ended with {he_j}, saw abort error: {saw_abort})"), log.replay_block(), "C11:app-status".into()); }
            if reads && !ignore && saw_abort && he_j != "HE(err:abort-request)" { or.fail(format!("handler propagating the abort error ended with {he_j}"), log.replay_block(), "C11:propagation".into()); }
            // input delivered before the error is a prefix of what was sent
            for e in &tr.events { if let Some(rest) = e.strip_prefix("R!abort-request:") { let data = unhex(rest.split(':').nth(1).unwrap_or("-")); if !plans[j].contents.iter().any(|(_, c)| c.starts_with(&data)) { or.fail("bytes delivered before the abort error are not a prefix of the stream".into(), log.replay_block(), "C11:prefix".into()); } } }
        }
        // the connection stays usable: every later request is served and answered
        for (i, p) in plans.iter().enumerate().skip(j + 1) {
            let n = recs_out.iter().filter(|r| r.rtype == T_END && r.id == p.pre.id).count();
            if n != 1 { or.fail(format!("request {} after the aborted one got {} EndRequest records", i + 1, n), log.replay_block(), "C11:next-request".into()); }
        }
        let exp_hs: Vec<String> = plans.iter().enumerate().filter(|(i, _)| !(in_preamble && *i == j)).map(|(_, p)| format!("HS({},{},{})", p.pre.role, p.pre.flags, env_fmt(&spec_env(&p.pre.pairs)))).collect();
        let got_hs: Vec<String> = hs.iter().map(|&i| tr.events[i].clone()).collect();
        if got_hs != exp_hs { or.fail(format!("handler invocations after an abort differ: {} seen, {} expected", got_hs.len(), exp_hs.len()), log.replay_block(), "C11:handler-sequence".into()); }
        or.eval((ci, &op), true);
        if ci == 0 { or.sample(format!("abort after record {pos} of request {} ({}), handler `{script}`", j + 1, if in_preamble { "preamble" } else { "streams" })); }
    }
    or.count_n("corr_ops", log.nops);
    log.finish();
    or.write(&ctx.dir);
}

// =====================================================================================================  C12
pub fn run_c12(ctx: &mut Ctx) {
    let mut log = Log::new(&ctx.dir);
    let mut im = Impl::new();
    let mut or = Oracle::new("C12",
        "for each scripted connection (1..2 requests, C07 handler family incl. propagating and ignoring handlers): EOF injected at every byte offset 0..N of the input (thorough, connections up to 700 wire bytes; otherwise strided + all record boundaries -1,0,+1,+8), a read error at every read-call index, a write error and a zero-length write at every write-call index, \
         combined with the C07 read/write chunking patterns. Oracle: the task returns (never panics, stalls or spins); no handler for an incomplete preamble; no successful short read-to-end; nothing accepted after a failed write for a propagating handler; the log is a prefix of a record sequence. Non-trivial: all; distinct by (connection, fault)");
    let mut rng = ctx.rng.fork();
    // the worked examples and replays behind the end-to-end theorems (corpus/C12_e2e_*.txt): compared with the model on every run
    crate::exec::witness_corpus(&["C12_"], &mut log, &mut im, &mut or);
    let thorough = ctx.tier_thorough || ctx.widen;
    // corpus first: minimised past failures; every case is a fault run whose handlers all propagate I/O errors
    let corpus = std::path::Path::new(env!("CARGO_MANIFEST_DIR")).join("../corpus/C12.txt");
    if let Ok(text) = std::fs::read_to_string(&corpus) {
        for line in text.lines() {
            if let Some(id) = line.strip_prefix("# case ") { log.case(id); }
            else if line.starts_with("t.run") {
                let o = ex(&mut log, &mut im, line);
                let tr = parse_trace(&o);
                if tr.fin != "RET" { or.fail(format!("corpus history {}: the connection task ended with {} instead of returning", log.cur_id, tr.fin), log.replay_block(), format!("C12:fin-{}:{}", tr.fin, log.cur_id)); }
                let mut failed = false;
                for e in &tr.events {
                    let is_w = (e.starts_with('W') || e.starts_with('V')) && e.contains(':') && !e.starts_with("W=") && !e.starts_with("W!");
                    if !is_w { continue; }
                    let res = e.rsplit(':').next().unwrap();
                    if failed && res.parse::<usize>().map_or(false, |n| n > 0) { or.fail(format!("corpus history {}: bytes were written after the failed write", log.cur_id), log.replay_block(), format!("C12:write-after-failure:{}", log.cur_id)); break; }
                    if res == "E" || res == "Z" { failed = true; }
                }
                if let (_, _, Some(bm)) = decode_log(&tr.wlog) { or.fail(format!("corpus history {}: bytes written are not a prefix of a record sequence: {bm}", log.cur_id), log.replay_block(), format!("C12:log-malformed:{}", log.cur_id)); }
                or.eval(line, true); or.count("corpus_cases");
            }
        }
    }
    // writer-level faults (poll-level `a.*` ops): the transport fails a write (error or Ok(0)) at any byte of a record; whatever the
    // handler then does with THAT writer short of writing or flushing again — close() it, clone it, drop it — must not panic
    for ci in 0..ctx.n(60, 600) {
        if or.saturated() { break; }
        let nparts = rng.usize_below(4);
        let mut wr: Vec<String> = (0..nparts).map(|_| match rng.below(4) { 0 => "P".to_string(), _ => (1 + rng.below(12)).to_string() }).collect();
        wr.push(if rng.chance(1, 2) { "E".into() } else { "Z".into() }); wr.push("A".into()); wr.push("A".into());
        log.case(&format!("c12w-{ci}"));
        let id = 1 + rng.below(60000);
        let o = ex(&mut log, &mut im, &format!("a.new 256 5 {id} 1 1 in=- end=pend rd=P wr={} fl=- la=0", wr.join(",")));
        if !o.starts_with("ok") { or.fail(format!("setup failed: {o}"), log.replay_block(), "C12:setup".into()); continue; }
        let t = if rng.chance(1, 2) { 6 } else { 7 };
        ex(&mut log, &mut im, &format!("a.open {t}"));
        let len = *rng.pick(&[1usize, 5, 8, 9, 40]); let data = rng.bytes(len);
        let mut failed = false;
        for _ in 0..20 { let o = ex(&mut log, &mut im, &format!("a.wpoll 0 {}", hexd(&data))); if o.starts_with("err") { failed = true; break; } if o.starts_with("panic") { or.fail("poll_write panicked".into(), log.replay_block(), "C12:writer-panic".into()); break; } if o.starts_with("ready") { break; } }
        if failed {
            let other = if t == 6 { 7 } else { 6 };
            let retry = format!("a.wpoll 0 {}", hexd(&data)); let sib_open = format!("a.open {other}"); let sl = 1 + rng.usize_below(9); let sib = format!("a.wpoll 1 {}", hexd(&rng.bytes(sl)));
            // ... nor may a retry of the same write (the write_all idiom on a transient error), and a SIBLING writer of the request polled
            // while the failed writer is still alive must not get anything onto the transport (the record of the failed writer is unfinished)
            let after: Vec<&str> = match rng.below(5) { 0 => vec!["a.cpoll 0"], 1 => vec!["a.clone 0", "a.cpoll 1", "a.cpoll 0"], 2 => vec!["a.cpoll 0", "a.drop 0"],
                                                        3 => vec![&retry, &retry], _ => vec![&sib_open, &sib, &sib] };
            for op in after {
                let o = ex(&mut log, &mut im, op);
                if o.starts_with("panic") { or.fail(format!("after a failed write of the transport, `{}` panicked", op.split(' ').take(2).collect::<Vec<_>>().join(" ")), log.replay_block(), "C12:panic-after-write-fault".into()); }
                if op.starts_with("a.wpoll 1") && !o.ends_with("wd=-") { or.fail("bytes of another writer reached the transport after a failed write inside an unfinished record".into(), log.replay_block(), "C12:written-after-failed-write".into()); }
            }
            or.count("writer_level_write_faults");
        }
        or.eval((ci, "w"), true);
    }
    for ci in 0..ctx.n(25, 120) {
        if or.saturated() { or.count("stopped_early_saturated"); break; }
        let k = 1 + rng.usize_below(2);
        let mc = 1 + rng.usize_below(50);
        let b = *rng.pick(&[128usize, 1024]);
        let nl = *rng.pick(&[0u64, 1, 2, 4, 6]);
        // every fault run repeats the whole wire: a connection whose wire runs to tens of KB (a rare maximal noise record) would
        // multiply into hundreds of MB of operations — regenerate until it is of moderate size (the large sizes belong to C03/C05/C07)
        let max_wire = if thorough { 12_000 } else { 3_000 };
        let mut plans: Vec<ReqPlan>; let mut wire: Vec<u8>; let mut tries = 0;
        loop {
            plans = (0..k).map(|_| { let mut p = gen_req(&mut rng, true, nl, mc, b, false); if rng.chance(1, 3) && p.script != "-" && !p.script.starts_with('~') && !p.opens { p.script = format!("~{}", p.script); } p }).collect();
            wire = plans.iter().flat_map(|p| ser_all(&p.recs)).collect();
            tries += 1;
            if wire.len() <= max_wire || tries >= 20 { break; }
        }
        let hs: String = plans.iter().map(|p| p.script.clone()).collect::<Vec<_>>().join(";");
        let rd = rd_script(&mut rng, 30); let wr = wr_script(&mut rng, 30, false);
        // fault-free baseline: number of read / write calls
        log.case(&format!("c12-{ci}-base"));
        let base = ex(&mut log, &mut im, &format!("t.run B={b} mc={mc} in={} end=eof rd={rd} wr={wr} fl=- stop=none h={hs}", hexd(&wire)));
        let trb = parse_trace(&base);
        let nreads = trb.events.iter().filter(|e| e.starts_with('R') && e.contains(':') && !e.starts_with("R=") && !e.starts_with("R!")).count();
        let nwrites = trb.events.iter().filter(|e| (e.starts_with('W') || e.starts_with('V')) && e.contains(':') && !e.starts_with("W=") && !e.starts_with("W!")).count();
        // preamble end offsets
        let mut pre_ends = vec![]; let mut off = 0;
        for p in &plans { let pl: usize = p.recs[..p.pre_len].iter().map(|r| r.ser().len()).sum(); pre_ends.push(off + pl); off += ser_all(&p.recs).len(); }
        let mut faults: Vec<(String, String)> = vec![];   // (kind, op)
        // EOF at byte offsets
        let mut offs: Vec<usize> = if thorough && wire.len() <= 700 { (0..=wire.len()).collect() } else { let mut v: Vec<usize> = (0..=wire.len()).step_by(7.max(wire.len() / 40)).collect(); let mut p = 0; for pl in &plans { for r in &pl.recs { p += r.ser().len(); v.extend([p.saturating_sub(1), p, (p + 1).min(wire.len()), (p + 8).min(wire.len())]); } } v.sort(); v.dedup(); v };
        offs.retain(|&o| o <= wire.len());
        for o in offs { faults.push((format!("eof@{o}"), format!("t.run B={b} mc={mc} in={} end=eof rd={rd} wr={wr} fl=- stop=none h={hs}", hexd(&wire[..o])))); }
        // hostile bytes instead of a fault of the transport: the version byte of one record header is not 1 (UnknownVersion is
        // fatal for both parsers; in the stream phase it reaches the handler as an InvalidData error)
        { let mut starts = vec![]; let mut p = 0usize; for pl in &plans { for r in &pl.recs { starts.push(p); p += r.ser().len(); } }
          let step = if thorough || starts.len() <= 40 { 1 } else { starts.len() / 40 };
          for (j, &st) in starts.iter().enumerate().step_by(step) { let mut w2 = wire.clone(); w2[st] = if j % 2 == 0 { 2 } else { 0 };
              faults.push((format!("badver@{st}"), format!("t.run B={b} mc={mc} in={} end=eof rd={rd} wr={wr} fl=- stop=none h={hs}", hexd(&w2)))); } }
        let set_nth = |script: &str, n: usize, what: &str| -> String { let mut v: Vec<String> = if script == "-" { vec![] } else { script.split(',').map(|s| s.to_string()).collect() }; while v.len() <= n { v.push("A".into()); } v[n] = what.into(); v.join(",") };
        let step = if thorough || nreads <= 100 { 1 } else { (nreads / 100).max(1) };
        // transport errors come in two flavours: a kind the library never produces itself, and kind ConnectionAborted (ek=a),
        // which the library also uses for "the client aborted this request"
        for i in (0..nreads).step_by(step) { for (tag, ek) in [("", ""), ("A", " ek=a"), ("I", " ek=i")] { faults.push((format!("readerr{tag}@{i}"), format!("t.run B={b} mc={mc} in={} end=eof rd={} wr={wr} fl=- stop=none h={hs}{ek}", hexd(&wire), set_nth(&rd, i, "E")))); } }
        let step = if thorough || nwrites <= 150 { 1 } else { (nwrites / 150).max(1) };
        for i in (0..nwrites).step_by(step) { for (tag, what, ek) in [("E", "E", ""), ("Z", "Z", ""), ("EA", "E", " ek=a"), ("EI", "E", " ek=i")] { faults.push((format!("write{tag}@{i}"), format!("t.run B={b} mc={mc} in={} end=eof rd={rd} wr={} fl=- stop=none h={hs}{ek}", hexd(&wire), set_nth(&wr, i, what)))); } }
        // a failing poll_flush of the transport, at every flush-call index, with handlers that IGNORE the error and carry on (a failed
        // flush releases the output mutex, unlike a failed write: other writers, management replies and close() must still get through)
        { let nflush = trb.events.iter().filter(|e| e.starts_with("F:")).count();
          let hs_ign: String = plans.iter().map(|p| if p.script == "-" || p.script.starts_with('~') { p.script.clone() } else { format!("~{}", p.script) }).collect::<Vec<_>>().join(";");
          // (the error kind matters here too: a flush error of kind Interrupted is still an error of the transport, not a retry request)
          for i in 0..nflush { for (tag, h, ek) in [("", &hs, ""), ("I", &hs_ign, ""), ("K", &hs, " ek=i"), ("KA", &hs, " ek=a")] {
              faults.push((format!("flushE{tag}@{i}"), format!("t.run B={b} mc={mc} in={} end=eof rd={rd} wr={wr} fl={} stop=none h={h}{ek}", hexd(&wire), set_nth("-", i, "E").replace('A', "O")))); } } }
        for (fi, (kind, op)) in faults.iter().enumerate() {
            log.case(&format!("c12-{ci}-{fi}"));
            let o = ex(&mut log, &mut im, op);
            let tr = parse_trace(&o);
            or.count(&format!("fault={}", kind.split('@').next().unwrap()));
            if tr.fin != "RET" { or.fail(format!("fault {kind}: the connection task ended with {} instead of returning", tr.fin), log.replay_block(), format!("C12:fin-{}", tr.fin)); }
            let nhs = tr.events.iter().filter(|e| e.starts_with("HS(")).count();
            if let Some(o) = kind.strip_prefix("eof@") { let o: usize = o.parse().unwrap(); let complete = pre_ends.iter().filter(|&&e| e <= o).count(); if nhs > complete { or.fail(format!("EOF after {o} bytes: {nhs} handler invocation(s) but only {complete} complete preamble(s) arrived"), log.replay_block(), "C12:handler-for-incomplete-preamble".into()); } }
            // a handler waiting for input that never comes gets an error, never a successful short read
            let mut hi = 0;
            for e in &tr.events {
                if e.starts_with("HS(") { hi += 1; }
                if let Some(rest) = e.strip_prefix("R=") { let data = unhex(rest.split(':').nth(1).unwrap_or("-")); if let Some(p) = plans.get(hi.max(1) - 1) { if !(p.contents.is_empty() && data.is_empty()) && !p.contents.iter().any(|(_, c)| c == &data || c.ends_with(&data)) { or.fail(format!("fault {kind}: read-to-end succeeded with {} bytes although the stream was cut short", data.len()), log.replay_block(), "C12:short-read-ok".into()); } } }
            }
            // ... and that error is the unexpected-EOF error (for an EOF of the transport) or the transport's own error (for a failed
            // read) — not some other kind (the connection's writes are all benign in these runs, so no write error can surface on the read side)
            if kind.starts_with("eof@") || kind.starts_with("readerr") {
                let want: &[&str] = if kind.starts_with("eof@") { &["eof"] } else if kind.starts_with("readerrA") { &["aborted"] } else { &["tread"] };
                for e in &tr.events {
                    let Some((op, k)) = e.split_once('!') else { continue };
                    if !matches!(op, "R" | "r" | "f" | "w") { continue; }
                    let k = k.split(':').next().unwrap_or("");
                    if !want.contains(&k) { or.fail(format!("fault {kind}: an input-side operation of the handler (`{op}`) failed with `{k}` instead of `{}`", want[0]), log.replay_block(), "C12:wrong-error-kind".into()); break; }
                }
            }
            // after a failed write nothing more is accepted when the handler propagates errors
            if kind.starts_with("write") {
                let mut failed = false; let mut in_ignoring_handler = false; let mut hi2 = 0usize;
                for e in &tr.events {
                    if e.starts_with("HS(") { hi2 += 1; in_ignoring_handler = plans.get(hi2 - 1).map_or(false, |p| p.script.starts_with('~')); }
                    if e.starts_with("HE(") { in_ignoring_handler = false; }
                    let is_w = (e.starts_with('W') || e.starts_with('V')) && e.contains(':') && !e.starts_with("W=") && !e.starts_with("W!");
                    if is_w { let res = e.rsplit(':').next().unwrap(); if failed && res.parse::<usize>().map_or(false, |n| n > 0) { or.fail(format!("fault {kind}: bytes were written after the failed write"), log.replay_block(), "C12:write-after-failure".into()); break; }
                        if res == "E" || res == "Z" { if in_ignoring_handler { break; }   // the clause is about handlers that propagate I/O errors
                            failed = true; } }
                }
            }
            let (_, _, bad) = decode_log(&tr.wlog);
            if let Some(bm) = bad { or.fail(format!("fault {kind}: bytes written are not a prefix of a record sequence: {bm}"), log.replay_block(), "C12:log-malformed".into()); }
            or.eval((ci, kind), true);
        }
        if ci == 0 { or.sample(format!("connection of {k} request(s), {} input bytes, {nreads} reads, {nwrites} writes -> {} fault runs", wire.len(), faults.len())); }
    }
    or.count_n("corr_ops", log.nops);
    log.finish();
    or.write(&ctx.dir);
}

// =====================================================================================================  C14 (a): shutdown vs the connection task
pub fn c14_conn(ctx: &mut Ctx, log: &mut Log, im: &mut Impl, or: &mut Oracle) {
    let mut rng = ctx.rng.fork();
    let thorough = ctx.tier_thorough || ctx.widen;
    for ci in 0..ctx.n(100, 600) {
        if or.saturated() { or.count("stopped_early_saturated"); break; }
        let k = 1 + rng.usize_below(3);
        let mc = 1 + rng.usize_below(50);
        let b = *rng.pick(&[128usize, 1024]);
        let plans: Vec<ReqPlan> = (0..k).map(|_| { let nl = rng.below(2); gen_req(&mut rng, true, nl, mc, b, false) }).collect();
        let rd = rd_script(&mut rng, 40); let wr = wr_script(&mut rng, 40, false);
        // half of the connections run on a transport whose poll_flush is sometimes Pending: every await point of the connection task
        // (not only reads and writes) splits a scheduling step, and shutdown may be requested in between
        let fl = if ci % 2 == 0 { "-".to_string() } else { let n = 1 + rng.usize_below(8); (0..n).map(|_| if rng.chance(1, 2) { "P" } else { "O" }).collect::<Vec<_>>().join(",") };
        let base_op = conn_op(&plans, b, mc, "pend", &rd, &wr, &fl, "none", true);
        log.case(&format!("c14-{ci}-base"));
        let base = ex(log, im, &base_op);
        let trb = parse_trace(&base);
        let npolls = trb.events.iter().filter(|e| e.starts_with('|')).count();
        let stops: Vec<usize> = if thorough { (0..=npolls + 1).collect() } else { let mut v: Vec<usize> = (0..=npolls + 1).step_by((npolls / 10).max(1)).collect(); v.extend([0, 1, npolls, npolls + 1]); v.sort(); v.dedup(); v };
        for s in stops {
            log.case(&format!("c14-{ci}-stop{s}"));
            let o = ex(log, im, &conn_op(&plans, b, mc, "pend", &rd, &wr, &fl, &s.to_string(), true));
            let tr = parse_trace(&o);
            if tr.fin != "RET" { or.fail(format!("shutdown requested before poll {s}: the connection task ended with {} instead of returning", tr.fin), log.replay_block(), format!("C14:conn-fin-{}", tr.fin)); }
            let mark = tr.events.iter().position(|e| *e == format!("|{s}"));
            if let Some(m) = mark {
                if tr.events[m..].iter().any(|e| e.starts_with("HS(")) { or.fail(format!("a handler invocation began in a scheduling step that started after shutdown was requested (poll {s})"), log.replay_block(), "C14:handler-after-stop".into()); }
                let nhs = tr.events[..m].iter().filter(|e| e.starts_with("HS(")).count();
                let nhe = tr.events[..m].iter().filter(|e| e.starts_with("HE(")).count();
                // a request is in flight until its close() has written the whole epilogue
                let written_before: usize = tr.events[..m].iter().filter(|e| (e.starts_with('W') || e.starts_with('V')) && e.contains(':') && !e.starts_with("W=") && !e.starts_with("W!")).filter_map(|e| e.rsplit(':').next().unwrap().parse::<usize>().ok()).sum();
                let closing = nhe > 0 && nhs == nhe && { let (recs_all, _, _) = decode_log(&tr.wlog); let mut off = 0usize; let mut end_off = None; for r in &recs_all { off += r.ser().len(); if r.rtype == T_END && r.id == plans[nhe - 1].pre.id { end_off = Some(off); } } end_off.map_or(true, |e| written_before < e) };
                let in_flight = nhs > nhe || closing;
                if in_flight {
                    // the running request completes normally, including its EndRequest
                    let idx = nhs - 1;
                    let (recs_out, _, _) = decode_log(&tr.wlog);
                    let n = recs_out.iter().filter(|r| r.rtype == T_END && r.id == plans[idx].pre.id).count();
                    if n != 1 && matches!(plans[idx].ret, Ret::Ok(..)) { or.fail(format!("request in flight when shutdown was requested got {n} EndRequest records"), log.replay_block(), "C14:in-flight-not-completed".into()); }
                } else if tr.events[m..].iter().any(|e| e.starts_with('R') && e.contains(':') && !e.starts_with("R=") && !e.starts_with("R!")) {
                    or.fail(format!("idle connection read from the transport after shutdown was requested (poll {s})"), log.replay_block(), "C14:idle-read-after-stop".into());
                }
            }
            or.eval((ci, s), true);
            or.count("conn_stop_points");
        }
    }
}
