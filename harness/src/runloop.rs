//! `t.run`: drives the real `Token::run` with a scripted transport, a closed-loop peer, a scripted handler
//! and a deterministic executor that polls the task only when it was woken.  Mirrors `Fcgi.Run` of the model.
use crate::exec::{config, env_str_async};
use crate::mock::*;
use crate::util::*;
use fastcgi_server::async_io::{Request, StreamWriter};
use fastcgi_server::protocol as fcgi;
use fastcgi_server::ExitStatus;
use futures_util::future::BoxFuture;
use futures_util::io::{AsyncBufRead, AsyncBufReadExt, AsyncReadExt, AsyncWriteExt};
use std::collections::VecDeque;
use std::future::Future;
use std::io;
use std::pin::Pin;
use std::sync::atomic::{AtomicBool, Ordering};
use std::sync::{Arc, Mutex};
use std::task::{Context, Poll, Wake};

#[derive(Clone, Debug)]
pub enum HOp { Read(usize), ReadAll, Fill, Consume(usize), SetStream(u8), Writeable, Open(u8), DropW(usize), WriteAll(usize, Vec<u8>), Flush(usize), Ret(ExitStatus), RetErr(io::ErrorKind) }

fn parse_op(tok: &str) -> Option<HOp> {
    let (c, body) = tok.split_at(1);
    Some(match c {
        "r" => HOp::Read(body.parse().ok()?), "R" => HOp::ReadAll, "f" => HOp::Fill, "c" => HOp::Consume(body.parse().ok()?),
        "s" => HOp::SetStream(body.parse().ok()?), "w" => HOp::Writeable, "o" => HOp::Open(body.parse().ok()?), "d" => HOp::DropW(body.parse().ok()?),
        "F" => HOp::Flush(body.parse().ok()?),
        "W" => { let (i, h) = body.split_once(':')?; HOp::WriteAll(i.parse().ok()?, unhex(h)) }
        "X" => { let (k, code) = body.split_once(':')?; let code: u32 = code.parse().ok()?;
                 HOp::Ret(match k { "complete" => ExitStatus::Complete(code), "overloaded" => ExitStatus::Overloaded, "unknownrole" => ExitStatus::UnknownRole, "abort" => ExitStatus::ABORT, _ => return None }) }
        "E" => HOp::RetErr(match body { "aborted" => io::ErrorKind::ConnectionAborted, "invalid" => io::ErrorKind::InvalidData, "other" => io::ErrorKind::Other, "eof" => io::ErrorKind::UnexpectedEof, "twrite" => io::ErrorKind::BrokenPipe, _ => return None }),
        _ => return None,
    })
}
fn parse_script(s: &str) -> Option<(Vec<HOp>, bool)> {
    let (prop, body) = if let Some(b) = s.strip_prefix('~') { (false, b) } else { (true, s) };
    if body == "-" { return Some((vec![], prop)); }
    Some((body.split(',').map(parse_op).collect::<Option<Vec<_>>>()?, prop))
}
fn status_str(s: ExitStatus) -> String { match s { ExitStatus::Complete(c) => format!("complete:{c}"), ExitStatus::Overloaded => "overloaded".into(), ExitStatus::UnknownRole => "unknownrole".into() } }

struct WakeFlag(AtomicBool);
impl Wake for WakeFlag { fn wake(self: Arc<Self>) { self.0.store(true, Ordering::SeqCst); } fn wake_by_ref(self: &Arc<Self>) { self.0.store(true, Ordering::SeqCst); } }

type Writers = Arc<Mutex<Vec<Option<StreamWriter<MockW>>>>>;

async fn handler(req: &mut Request<'_, MockR, MockW>, ops: Vec<HOp>, propagate: bool, sh: Arc<Mutex<Shared>>, writers: Writers) -> io::Result<ExitStatus> {
    let ev = |s: String| sh.lock().unwrap().events.push(s);
    writers.lock().unwrap().clear();   // writer slots are per request
    ev(format!("HS({},{},{})", u16::from(req.role()), u8::from(req.flags()), env_str_async(req)));
    // the accessor API of the async Request against its iterator (the model never emits this event)
    {
        use fastcgi_server::cgi::VarName;
        let items: Vec<(String, Vec<u8>)> = req.env_iter().map(|(k, v)| (k.as_ref().to_string(), v.to_vec())).collect();
        let mut bad: Option<String> = None;
        if req.env_len() != items.len() { bad = Some("env_len".into()); }
        for (k, v) in &items { for name in [k.clone(), k.to_ascii_lowercase()] {
            let vn = VarName::new(&name);
            if !req.contains_var(vn) || req.get_var(vn) != Some(&v[..]) || req.get_var_str(vn) != std::str::from_utf8(v).ok() { bad = Some(format!("lookup:{}", hexd(name.as_bytes()))); }
        } }
        let vn = VarName::new("X_VERIF_ABSENT");
        if !items.iter().any(|(k, _)| k == "X_VERIF_ABSENT") && (req.contains_var(vn) || req.get_var(vn).is_some()) { bad = Some("absent-found".into()); }
        if let Some(b) = bad { ev(format!("ACC!{b}")); }
    }
    macro_rules! fail { ($e:expr, $msg:expr) => {{ ev($msg); if propagate { return Err($e); } else { continue; } }}; }
    for op in ops {
        match op {
            HOp::Ret(s) => return Ok(s),
            HOp::RetErr(k) => return Err(k.into()),
            HOp::Read(n) => { let mut buf = vec![0u8; n]; match req.read(&mut buf).await { Ok(k) => ev(format!("r={k}:{}", hexd(&buf[..k]))), Err(e) => fail!(e, format!("r!{}", io_kind(&e))) } }
            HOp::ReadAll => { let mut acc = vec![]; let mut buf = [0u8; 64];
                loop { match req.read(&mut buf).await { Ok(0) => { ev(format!("R={}:{}", acc.len(), hexd(&acc))); break; } Ok(k) => acc.extend(&buf[..k]),
                    Err(e) => { let m = format!("R!{}:{}:{}", io_kind(&e), acc.len(), hexd(&acc)); ev(m); if propagate { return Err(e); } else { break; } } } } }
            HOp::Fill => { match req.fill_buf().await { Ok(b) => { let m = format!("f={}:{}", b.len(), hexd(b)); ev(m) } Err(e) => fail!(e, format!("f!{}", io_kind(&e))) } }
            HOp::Consume(k) => { Pin::new(&mut *req).consume(k); }
            HOp::SetStream(t) => { req.set_stream(fcgi::RecordType::try_from(t).expect("stream type")); ev("s=ok".into()); }
            HOp::Writeable => { match req.writeable().await { Ok(()) => ev("w=ok".into()), Err(e) => fail!(e, format!("w!{}", io_kind(&e))) } }
            HOp::Open(t) => { let w = req.output_stream(fcgi::RecordType::try_from(t).expect("stream type")); if u8::from(w.stream()) != t { ev(format!("ACC!writer-stream:{}", u8::from(w.stream()))); } let mut g = writers.lock().unwrap(); g.push(Some(w)); let n = g.len() - 1; drop(g); ev(format!("o=w{n}")); }
            HOp::DropW(i) => { let mut g = writers.lock().unwrap(); if let Some(slot) = g.get_mut(i) { *slot = None; } }
            HOp::WriteAll(i, data) => {
                let w = { let mut g = writers.lock().unwrap(); g.get_mut(i).and_then(|s| s.take()) };
                let Some(mut w) = w else { ev("W!nowriter".into()); continue; };
                let r = w.write_all(&data).await;
                writers.lock().unwrap()[i] = Some(w);
                match r { Ok(()) => ev("W=ok".into()), Err(e) => fail!(e, format!("W!{}", io_kind(&e))) }
            }
            HOp::Flush(i) => {
                let w = { let mut g = writers.lock().unwrap(); g.get_mut(i).and_then(|s| s.take()) };
                let Some(mut w) = w else { ev("F!nowriter".into()); continue; };
                let r = w.flush().await;
                writers.lock().unwrap()[i] = Some(w);
                match r { Ok(()) => ev("F=ok".into()), Err(e) => fail!(e, format!("F!{}", io_kind(&e))) }
            }
        }
    }
    Ok(ExitStatus::SUCCESS)
}

fn kv<'a>(args: &'a [&'a str], key: &str) -> Option<&'a str> { args.iter().find_map(|a| a.strip_prefix(key).and_then(|r| r.strip_prefix('='))) }

#[derive(Clone, Debug)]
pub enum Gate { Bytes(usize), Records(usize), EndReqs(usize), EndOf(u16), HasRec(Vec<u8>), Both(Box<Gate>, Box<Gate>) }
/// (complete records, complete EndRequest records) in the byte log
pub fn count_records(log: &[u8]) -> (usize, usize) {
    let (mut p, mut n, mut e) = (0usize, 0usize, 0usize);
    while log.len() - p >= 8 { let len = u16::from_be_bytes([log[p + 4], log[p + 5]]) as usize + log[p + 6] as usize; if log.len() - p - 8 < len { break; } n += 1; if log[p + 1] == 3 { e += 1; } p += 8 + len; }
    (n, e)
}
impl Gate { fn open(&self, wlog: &[u8]) -> bool { match self { Gate::Bytes(n) => wlog.len() >= *n, Gate::Records(n) => count_records(wlog).0 >= *n, Gate::EndReqs(n) => count_records(wlog).1 >= *n, Gate::EndOf(id) => has_end_of(wlog, *id), Gate::HasRec(r) => has_record(wlog, r), Gate::Both(a, b) => a.open(wlog) && b.open(wlog) } } }
pub fn has_record(log: &[u8], r: &[u8]) -> bool {
    let mut p = 0usize;
    while log.len() - p >= 8 { let len = u16::from_be_bytes([log[p + 4], log[p + 5]]) as usize + log[p + 6] as usize; if log.len() - p - 8 < len { return false; } if &log[p..p + 8 + len] == r { return true; } p += 8 + len; }
    false
}
fn parse_gate1(g: &str) -> Option<Gate> { Some(if let Some(h) = g.strip_prefix('X') { Gate::HasRec(unhex(h)) } else if let Some(n) = g.strip_prefix('R') { Gate::Records(n.parse().ok()?) } else if let Some(n) = g.strip_prefix('E') { Gate::EndReqs(n.parse().ok()?) } else if let Some(n) = g.strip_prefix('I') { Gate::EndOf(n.parse().ok()?) } else { Gate::Bytes(g.parse().ok()?) }) }
fn parse_gate(g: &str) -> Option<Gate> { match g.split_once('&') { Some((a, b)) => Some(Gate::Both(Box::new(parse_gate1(a)?), Box::new(parse_gate(b)?))), None => parse_gate1(g) } }   // a&b&c…: right-nested
pub fn has_end_of(log: &[u8], id: u16) -> bool {
    let mut p = 0usize;
    while log.len() - p >= 8 { let len = u16::from_be_bytes([log[p + 4], log[p + 5]]) as usize + log[p + 6] as usize; if log.len() - p - 8 < len { return false; } if log[p + 1] == 3 && u16::from_be_bytes([log[p + 2], log[p + 3]]) == id { return true; } p += 8 + len; }
    false
}
pub struct RunOut { pub trace: String, pub shutdown_ready_after_return: Option<bool> }

pub fn run_case(args: &[&str]) -> Option<String> {
    let b: usize = kv(args, "B")?.parse().ok()?;
    let mc: usize = kv(args, "mc")?.parse().ok()?;
    let mut segs: VecDeque<(Gate, Vec<u8>)> = VecDeque::new();
    let ins = kv(args, "in")?;
    if ins != "-" { for item in ins.split(',') { match item.split_once('@') {
        Some((h, g)) => { segs.push_back((parse_gate(g)?, unhex(h))) }
        None => segs.push_back((Gate::Bytes(0), unhex(item))) } } }
    let end = match kv(args, "end")? { "eof" => EndMode::Eof, "pend" => EndMode::Pend, _ => EndMode::Err };
    let stop_at: Option<usize> = match kv(args, "stop")? { "none" => None, x => Some(x.parse().ok()?) };
    let scripts: VecDeque<(Vec<HOp>, bool)> = kv(args, "h")?.split(';').map(parse_script).collect::<Option<_>>()?;
    let sh = Shared::new(&[], end, parse_rd(kv(args, "rd")?), parse_wr(kv(args, "wr")?), parse_fl(kv(args, "fl")?));
    sh.lock().unwrap().auto_wake = true;
    sh.lock().unwrap().abort_kind = kv(args, "ek") == Some("a");
    sh.lock().unwrap().intr_kind = kv(args, "ek") == Some("i");
    let writers: Writers = Arc::new(Mutex::new(vec![]));
    let scripts = Arc::new(Mutex::new(scripts));

    let mut runner = Some(config(b, mc).async_runner());
    let flag = Arc::new(WakeFlag(AtomicBool::new(true)));
    let waker = std::task::Waker::from(flag.clone());
    let mut cx = Context::from_waker(&waker);
    // gt=1 (C13): the semaphore is saturated — the other mc-1 permits are taken and held — and after every poll of the task
    // that returned Pending a fresh get_token() is polled once: it must stay Pending for as long as the connection task lives
    let gate_probe = kv(args, "gt") == Some("1") && stop_at.is_none();
    let mut held = vec![];
    if gate_probe { for _ in 1..mc { let r = runner.as_ref().unwrap(); let f = r.get_token(); futures_util::pin_mut!(f); match f.poll(&mut cx) { Poll::Ready(t) => held.push(t), Poll::Pending => return Some("get_token-pending".into()) } } }
    let token = { let r = runner.as_ref().unwrap(); let f = r.get_token(); futures_util::pin_mut!(f); match f.poll(&mut cx) { Poll::Ready(t) => t, Poll::Pending => return Some("get_token-pending".into()) } };
    let probe = |runner: &Option<fastcgi_server::async_io::Runner>, sh: &Arc<Mutex<Shared>>| {
        if let Some(r) = runner.as_ref() {
            let w2 = futures_util::task::noop_waker(); let mut cx2 = Context::from_waker(&w2);
            let f = r.get_token(); futures_util::pin_mut!(f);
            let ready = matches!(f.poll(&mut cx2), Poll::Ready(_));
            sh.lock().unwrap().events.push(if ready { "G:R".into() } else { "G:P".into() });
        }
    };
    let (sh2, w2, s2) = (sh.clone(), writers.clone(), scripts.clone());
    fn constrain<F>(f: F) -> F where F: for<'a, 'b> FnMut(&'a mut Request<'b, MockR, MockW>) -> BoxFuture<'a, io::Result<ExitStatus>> { f }
    let h = constrain(move |req| {
        let (ops, prop) = s2.lock().unwrap().pop_front().unwrap_or((vec![], true));
        let (sh, w) = (sh2.clone(), w2.clone());
        Box::pin(async move {
            let r = handler(req, ops, prop, sh.clone(), w).await;
            let m = match &r { Ok(s) => format!("HE(ok:{})", status_str(*s)), Err(e) => format!("HE(err:{})", io_kind(e)) };
            sh.lock().unwrap().events.push(m);
            r
        })
    });
    let mut task: Pin<Box<dyn Future<Output = ()>>> = Box::pin(token.run(MockR(sh.clone()), MockW(sh.clone()), h));
    let mut shutdown_fut = None;
    let release = |sh: &Arc<Mutex<Shared>>, segs: &mut VecDeque<(Gate, Vec<u8>)>| -> bool {
        let mut s = sh.lock().unwrap(); let mut any = false;
        while let Some((g, _)) = segs.front() { if g.open(&s.wlog) { let (_, bs) = segs.pop_front().unwrap(); s.input.extend(bs); any = true; } else { break; } }
        s.hold = !segs.is_empty();
        if any { if let Some(w) = s.read_waker.take() { w.wake(); } }
        any
    };
    let mut poll_no = 0usize;
    let fin;
    let mut guard = 0;
    loop {
        guard += 1; if guard > 200_000 { fin = "FUEL"; break; }
        if stop_at == Some(poll_no) { if let Some(r) = runner.take() { shutdown_fut = Some(r.shutdown()); } }
        release(&sh, &mut segs);
        sh.lock().unwrap().events.push(format!("|{poll_no}"));
        flag.0.store(false, Ordering::SeqCst);
        sh.lock().unwrap().waiting_for_input = false;
        let r = catch(|| task.as_mut().poll(&mut cx));
        match r {
            Err(_) => { fin = if sh.lock().map(|s| s.spun).unwrap_or_else(|e| e.into_inner().spun) { "SPIN" } else { "PANIC" }; break; }
            Ok(Poll::Ready(())) => { fin = "RET"; break; }
            Ok(Poll::Pending) => {
                if gate_probe { probe(&runner, &sh); }
                if flag.0.load(Ordering::SeqCst) { poll_no += 1; continue; }
                // not woken: is the peer able to release more input?
                if release(&sh, &mut segs) && flag.0.load(Ordering::SeqCst) { poll_no += 1; continue; }
                match stop_at { Some(k) if k > poll_no && runner.is_some() => {
                        // the stop request arrives while the task is parked
                        if let Some(r) = runner.take() { shutdown_fut = Some(r.shutdown()); }
                        if flag.0.load(Ordering::SeqCst) { poll_no = k; continue; }
                        fin = "STALL-NOT-WOKEN-BY-STOP"; break; }
                    _ => {} }
                fin = "STALL"; break;
            }
        }
    }
    drop(task);
    if gate_probe { probe(&runner, &sh); }
    drop(held);
    let _ = shutdown_fut;
    let s = sh.lock().unwrap();
    Some(format!("{} {fin} wlog={}", s.events.join(" "), hexd(&s.wlog)))
}
