//! C17 — record headers, fixed bodies, generated replies.
use crate::exec::{run as ex, Impl};
use crate::util::*;
use fastcgi_server::protocol as fcgi;

fn fail(or: &mut Oracle, what: String, op: String) { let sig = format!("{}", op.split(' ').next().unwrap_or("")); or.fail(what, format!("# case flat-oracle\n{op}"), format!("{sig}:{op}")); }

pub fn run(ctx: &mut Ctx) {
    let mut log = Log::new(&ctx.dir);
    let mut im = Impl::new();
    let mut or = Oracle::new("C17",
        "each field exhaustively with the others sampled: 2^16 (version,type) pairs, 2^16 ids, 2^16 content lengths, 256 paddings; 2^16 roles x sampled flags and 256 flags; \
         256 status bytes; 65536 content lengths for the padding rule; 8 variable subsets x decimal-boundary limits x prefilled buffers x Vec/SmallVec; all ExitStatus kinds. \
         Every op is compared with the Lean model and judged against the FastCGI wire layout re-implemented in the oracle. Non-trivial: all (each is a distinct field combination)");
    let mut rng = ctx.rng.fork();
    log.case("flat-header");
    // (version, type) exhaustively
    for v in 0..=255u32 { for t in 0..=255u32 {
        let id = rng.below(65536) as u16; let len = rng.below(65536) as u16; let pad = rng.below(256) as u8; let res = rng.below(256) as u8;
        let b = [v as u8, t as u8, (id >> 8) as u8, id as u8, (len >> 8) as u8, len as u8, pad, res];
        let op = format!("hdr.dec {}", hex(&b));
        let o = ex(&mut log, &mut im, &op);
        let exp = if v != 1 { format!("err version {v}") } else if !(1..=11).contains(&t) { format!("err rtype {t}") } else {
            let mut re = b; re[7] = 0;
            format!("ok {t} {id} {len} {pad} mgmt={} re={}", (9..=11).contains(&t) && id == 0, hex(&re)) };
        if o != exp { fail(&mut or, format!("from_bytes({}) = `{o}`, specification says `{exp}`", hex(&b)), op); }
        or.eval(("vt", v, t), true);
    } }
    or.exhaustive.push("all 2^16 (version, type) byte pairs".into());
    for x in 0..=65535u32 {
        let t = rng.range(1, 11) as u8;
        let (id, len) = if x % 2 == 0 { (x as u16, rng.below(65536) as u16) } else { (rng.below(65536) as u16, x as u16) };
        for (id, len) in [(x as u16, len), (id, x as u16)] {
            let pad = rng.below(256) as u8;
            let op = format!("hdr.enc {t} {id} {len} {pad}");
            let o = ex(&mut log, &mut im, &op);
            let exp = hex(&[1, t, (id >> 8) as u8, id as u8, (len >> 8) as u8, len as u8, pad, 0]);
            if o != exp { fail(&mut or, format!("to_bytes(type {t}, id {id}, len {len}, pad {pad}) = {o}, expected {exp}"), op); }
            let op2 = format!("hdr.dec {exp}");
            let o2 = ex(&mut log, &mut im, &op2);
            if !o2.starts_with(&format!("ok {t} {id} {len} {pad} ")) { fail(&mut or, format!("header round trip changed the value: {o2}"), op2); }
            or.eval(("enc", t, id, len, pad), true);
        }
    }
    or.exhaustive.push("all 2^16 request ids and all 2^16 content lengths (round trip)".into());
    for pad in 0..=255u32 { let op = format!("hdr.enc {} {} {} {pad}", rng.range(1, 11), rng.below(65536), rng.below(65536)); let o = ex(&mut log, &mut im, &op);
        if o.get(12..14).and_then(|h| u8::from_str_radix(h, 16).ok()) != Some(pad as u8) { fail(&mut or, format!("padding byte not encoded: {o}"), op); } or.eval(("pad", pad), true); }
    log.case("flat-padding");
    for c in 0..=65535u32 {
        let op = format!("hdr.setlen {c}");
        let o = ex(&mut log, &mut im, &op);
        let mut it = o.split(' ');
        let (cl, p): (u32, u32) = (it.next().and_then(|x| x.parse().ok()).unwrap_or(99999), it.next().and_then(|x| x.parse().ok()).unwrap_or(99999));
        if !(cl == c && p < 8 && (c + p) % 8 == 0) { fail(&mut or, format!("set_lengths({c}) gives content {cl} padding {p}: not (<8 and multiple of 8)"), op); }
        or.eval(("setlen", c), true);
    }
    or.exhaustive.push("all 65536 content lengths for the padding rule".into());
    // one header value reused for the next record (what StreamWriter does): the rule holds whatever the previous lengths were
    log.case("flat-padding-reused-header");
    let mut pairs: Vec<(u32, u32)> = vec![];
    for a in 0..=17u32 { for b in [0u32, 1, 7, 8, 9, 16, 24, 65528, 65535] { pairs.push((a, b)); } }
    for _ in 0..3000 { pairs.push((rng.below(65536) as u32, if rng.chance(1, 2) { (rng.below(8192) * 8) as u32 } else { rng.below(65536) as u32 })); }
    for (a, b) in pairs {
        let op = format!("hdr.setlen2 {a} {b}");
        let o = ex(&mut log, &mut im, &op);
        let mut it = o.split(' ');
        let (cl, p): (u32, u32) = (it.next().and_then(|x| x.parse().ok()).unwrap_or(99999), it.next().and_then(|x| x.parse().ok()).unwrap_or(99999));
        if !(cl == b && p < 8 && (b + p) % 8 == 0) { fail(&mut or, format!("set_lengths({a}) then set_lengths({b}) on one header gives content {cl} padding {p}: not (<8 and multiple of 8)"), op); }
        or.eval(("setlen2", a, b), true);
    }

    log.case("flat-bodies");
    for role in 0..=65535u32 {
        let flags = if role < 256 { role as u8 } else { rng.below(256) as u8 };
        let mut b = rng.bytes(8); b[0] = (role >> 8) as u8; b[1] = role as u8; b[2] = flags;
        let op = format!("begin.dec {}", hex(&b));
        let o = ex(&mut log, &mut im, &op);
        let exp = if (1..=3).contains(&role) { format!("ok {role} {flags} re={}", hex(&[b[0], b[1], flags, 0, 0, 0, 0, 0])) } else { format!("err role {role}") };
        if o != exp { fail(&mut or, format!("BeginRequest::from_bytes({}) = `{o}`, expected `{exp}`", hex(&b)), op); }
        or.eval(("role", role, flags), true);
    }
    for role in 1..=3u32 { for flags in 0..=255u32 {
        let id = rng.below(65536);
        let op = format!("begin.rec {role} {flags} {id}");
        let o = ex(&mut log, &mut im, &op);
        let exp = hex(&[1, 1, (id >> 8) as u8, id as u8, 0, 8, 0, 0, 0, role as u8, flags as u8, 0, 0, 0, 0, 0]);
        if o != exp { fail(&mut or, format!("BeginRequest.to_record = {o}, expected {exp}"), op); }
        let b = [0, role as u8, flags as u8, 0, 0, 0, 0, 0];
        let o2 = ex(&mut log, &mut im, &format!("begin.dec {}", hex(&b)));
        if !o2.starts_with(&format!("ok {role} {flags} ")) { fail(&mut or, format!("flag byte {flags} not retained: {o2}"), format!("begin.dec {}", hex(&b))); }
        or.eval(("brec", role, flags), true);
    } }
    or.exhaustive.push("all 2^16 role values; all 3 roles x 256 flag bytes".into());
    for st in 0..=255u32 {
        let app = match st % 4 { 0 => 0, 1 => u32::MAX, _ => rng.next() as u32 };
        let mut b = rng.bytes(8); b[..4].copy_from_slice(&app.to_be_bytes()); b[4] = st as u8;
        let op = format!("end.dec {}", hex(&b));
        let o = ex(&mut log, &mut im, &op);
        let exp = if st <= 3 { format!("ok {app} {st} re={}", hex(&[b[0], b[1], b[2], b[3], st as u8, 0, 0, 0])) } else { format!("err status {st}") };
        if o != exp { fail(&mut or, format!("EndRequest::from_bytes({}) = `{o}`, expected `{exp}`", hex(&b)), op); }
        if st <= 3 {
            let id = rng.below(65536);
            let op = format!("end.rec {app} {st} {id}");
            let o = ex(&mut log, &mut im, &op);
            let a = app.to_be_bytes();
            let exp = hex(&[1, 3, (id >> 8) as u8, id as u8, 0, 8, 0, 0, a[0], a[1], a[2], a[3], st as u8, 0, 0, 0]);
            if o != exp { fail(&mut or, format!("EndRequest.to_record = {o}, expected {exp}"), op); }
        }
        let t = st;
        let mut ub = rng.bytes(8); ub[0] = t as u8;
        let o = ex(&mut log, &mut im, &format!("unk.dec {}", hex(&ub)));
        if o != format!("ok {t} re={}", hex(&[t as u8, 0, 0, 0, 0, 0, 0, 0])) { fail(&mut or, format!("UnknownType decode/re-encode wrong: {o}"), format!("unk.dec {}", hex(&ub))); }
        let id = rng.below(65536);
        let op = format!("unk.rec {t} {id}");
        let o = ex(&mut log, &mut im, &op);
        let exp = hex(&[1, 11, (id >> 8) as u8, id as u8, 0, 8, 0, 0, t as u8, 0, 0, 0, 0, 0, 0, 0]);
        if o != exp { fail(&mut or, format!("UnknownType.to_record = {o}, expected {exp}"), op); }
        or.eval(("status", st), true);
    }
    or.exhaustive.push("all 256 protocol-status bytes; all 256 unknown-type bytes".into());

    log.case("flat-exit");
    for (k, code, app, ps) in [("complete", 0u32, 0u32, 0u8), ("complete", 1, 1, 0), ("complete", u32::MAX, u32::MAX, 0), ("complete", 0x4142_5254, 0x4142_5254, 0),
                               ("overloaded", 7, 0, 2), ("unknownrole", 9, 0, 3), ("abort", 0, u32::from_be_bytes(*b"ABRT"), 0), ("success", 5, 0, 0)] {
        let op = format!("exit.map {k} {code}");
        let o = ex(&mut log, &mut im, &op);
        if o != format!("{app} {ps}") { fail(&mut or, format!("EndRequest::from(ExitStatus {k}({code})) = {o}, documented ({app}, {ps})"), op); }
        or.eval(("exit", k, code), true);
    }
    for _ in 0..ctx.n(200, 5000) { let c = rng.next() as u32; let op = format!("exit.map complete {c}"); let o = ex(&mut log, &mut im, &op); if o != format!("{c} 0") { fail(&mut or, format!("Complete({c}) -> {o}"), op); } or.eval(("exitc", c), true); }

    log.case("flat-vars");
    let names: [&[u8]; 3] = [b"FCGI_MAX_CONNS", b"FCGI_MAX_REQS", b"FCGI_MPXS_CONNS"];
    for (i, n) in names.iter().enumerate() {
        let op = format!("vars.name {}", hex(n));
        let o = ex(&mut log, &mut im, &op);
        if o != format!("ok {}", 1 << i) { fail(&mut or, format!("parse_name({}) = {o}", String::from_utf8_lossy(n)), op); }
        for variant in [n.to_ascii_lowercase(), n[..n.len() - 1].to_vec(), [n, &b"X"[..]].concat(), vec![], vec![0xff, 0xfe]] {
            let op = format!("vars.name {}", hexd(&variant));
            let o = ex(&mut log, &mut im, &op);
            if o != "unknown" { fail(&mut or, format!("parse_name accepted a non-name: {o}"), op); }
        }
    }
    let mut limits: Vec<u64> = vec![1, 2, u64::MAX, u64::MAX - 1];
    let mut p = 1u64; for _ in 0..19 { p *= 10; limits.extend([p - 1, p, p + 1]); }
    for _ in 0..ctx.n(20, 400) { limits.push(rng.next() >> rng.below(64)); }
    let mut maxlen = 0usize;
    for set in 0..8u32 { for &mc in &limits { if mc == 0 { continue; }
        let variants = ctx.n(2, 6);
        for k in 0..variants {
            let prelen = match k { 0 => 0, 1 => rng.usize_below(41), _ => rng.usize_below(300) };
            let pre = rng.bytes(prelen);
            let target = if rng.chance(1, 2) { "vec" } else { "small" };
            let op = format!("vars.resp {set} {mc} {} {target}", hexd(&pre));
            let o = ex(&mut log, &mut im, &op);
            // independent decode of the produced record
            let mut it = o.split(' ');
            let n: usize = it.next().and_then(|x| x.parse().ok()).unwrap_or(usize::MAX);
            let rec = unhex(it.next().unwrap_or("-"));
            let preserved = it.next() == Some("preserved=true");
            let mut expect_pairs: Vec<(Vec<u8>, Vec<u8>)> = vec![];
            for (i, nm) in names.iter().enumerate() { if set & (1 << i) != 0 { expect_pairs.push((nm.to_vec(), if i == 2 { b"0".to_vec() } else { mc.to_string().into_bytes() })); } }
            let good = (|| {
                if !preserved || n != rec.len() || rec.len() < 8 || rec.len() > fcgi::ProtocolVariables::RESPONSE_LEN { return false; }
                let hd = match fcgi::RecordHeader::from_bytes(rec[..8].try_into().unwrap()) { Ok(h) => h, Err(_) => return false };
                if hd.rtype != fcgi::RecordType::GetValuesResult || hd.request_id != 0 { return false; }
                let (cl, pl) = (hd.content_length as usize, hd.padding_length as usize);
                if rec.len() != 8 + cl + pl || pl >= 8 || (cl + pl) % 8 != 0 || rec[8 + cl..].iter().any(|&b| b != 0) { return false; }
                let mut itr = fcgi::nv::NVIter::new(&rec[8..8 + cl]);
                let ps: Vec<(Vec<u8>, Vec<u8>)> = (&mut itr).map(|(a, b)| (a.to_vec(), b.to_vec())).collect();
                itr.into_inner().is_empty() && ps == expect_pairs
            })();
            maxlen = maxlen.max(rec.len());
            if !good { fail(&mut or, format!("write_response(set {set:#05b}, max_conns {mc}, prefilled {prelen}) produced `{o}`: not one well-formed GetValuesResult listing exactly the requested variables"), op); }
            or.eval(("resp", set, mc, prelen, target), true);
        }
    } }
    or.count_n("longest_response_seen", maxlen as u64);
    or.sample(format!("vars.resp 7 18446744073709551615 - vec -> {}", im.exec("vars.resp 7 18446744073709551615 - vec")));
    or.sample(format!("hdr.dec 0109000000330500 -> {}", im.exec("hdr.dec 0109000000330500")));
    // small API corners no protocol path goes through (oracle only): RequestFlags::validate over all 256 bytes — the only
    // defined flag is KeepConn (bit 0) —, ExitStatus::default / From<u32>
    {
        use fastcgi_server::protocol as fcgi;
        for b in 0..=255u8 {
            let fl = fcgi::RequestFlags::from(b);
            let r = fl.validate();
            let ok = match (&r, b & !1) { (Ok(()), 0) => true, (Err(fcgi::Error::UnknownFlags(u)), x) if x != 0 => *u == x, _ => false };
            if !ok { or.fail(format!("RequestFlags::from({b:#x}).validate() = {r:?}"), format!("# case flat-oracle\n# RequestFlags::validate {b}"), format!("flags-validate:{b}")); }
            if u8::from(fl) != b { or.fail(format!("RequestFlags::from({b:#x}) does not retain its bits"), format!("# case flat-oracle\n# RequestFlags {b}"), format!("flags-retain:{b}")); }
        }
        or.eval_bulk(256, 256, "flags-validate");
        if fastcgi_server::ExitStatus::default() != fastcgi_server::ExitStatus::SUCCESS { or.fail("ExitStatus::default() is not SUCCESS".into(), "# case flat-oracle\n# ExitStatus::default".into(), "exit-default".into()); }
        for v in [0u32, 1, 77, u32::MAX] { if fastcgi_server::ExitStatus::from(v) != fastcgi_server::ExitStatus::Complete(v) { or.fail(format!("ExitStatus::from({v}) is not Complete({v})"), "# case flat-oracle\n# ExitStatus::from".into(), format!("exit-from:{v}")); } }
    }
    or.count_n("corr_ops", log.nops);
    log.finish();
    or.write(&ctx.dir);
}
