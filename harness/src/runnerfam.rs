//! C13 (token limit / no stranded slot) and C14(b) (shutdown future vs token drops) on the real `Runner`.
use crate::exec::{config, run as ex, CountWaker, Impl};
use crate::util::*;
use std::future::Future;
use std::sync::atomic::{AtomicUsize, Ordering};
use std::sync::Arc;
use std::task::{Context, Poll};

fn field<'a>(obs: &'a str, key: &str) -> Option<&'a str> {
    obs.split(' ').find_map(|t| t.strip_prefix(key).and_then(|r| r.strip_prefix('=')))
}
fn wakes_of(obs: &str) -> std::collections::BTreeMap<usize, usize> {
    let mut m = std::collections::BTreeMap::new();
    if let Some(w) = field(obs, "wakes") { if w != "-" { for it in w.split(',') { if let Some((a, n)) = it.split_once(':') { m.insert(a.parse().unwrap(), n.parse().unwrap()); } } } }
    m
}

pub fn run_c13(ctx: &mut Ctx) {
    let mut log = Log::new(&ctx.dir);
    let mut im = Impl::new();
    let mut or = Oracle::new("C13",
        "op histories of length <= 40 over limits 1..4 and 0..2 clones: get_token (on the runner or a clone), poll, drop-pending-request, drop-token; single-threaded with a counting waker per pending request (poll results and wake counts compared with the model); \
         plus a real-thread stress (acquirer/dropper threads, live counter asserted <= max after every acquisition) as failing-input search. Non-trivial: history contains a contended acquisition; distinct by history");
    crate::exec::witness_corpus(&["C13_"], &mut log, &mut im, &mut or);
    let mut rng = ctx.rng.fork();
    for ci in 0..ctx.n(2000, 40_000) {
        if or.saturated() { or.count("stopped_early_saturated"); break; }
        let max = 1 + rng.usize_below(4);
        let clones = rng.usize_below(3);
        log.case(&format!("c13-{ci}"));
        ex(&mut log, &mut im, &format!("k.new {max} {clones}"));
        let mut pending: Vec<usize> = vec![];              // future indices alive
        let mut polled: std::collections::BTreeMap<usize, usize> = Default::default();   // future -> wake count at its last poll
        let mut tokens: Vec<usize> = vec![];
        let mut nfut = 0usize; let mut ntok = 0usize; let mut contended = false;
        let len = 5 + rng.usize_below(36);
        for _ in 0..len {
            let live_before = tokens.len();
            let choice = rng.below(10);
            let o = if choice < 3 || (pending.is_empty() && tokens.is_empty()) {
                let o = ex(&mut log, &mut im, &format!("k.get {}", rng.usize_below(clones + 1))); pending.push(nfut); nfut += 1; o
            } else if choice < 7 && !pending.is_empty() {
                let a = *rng.pick(&pending);
                let o = ex(&mut log, &mut im, &format!("k.poll {a}"));
                if o.starts_with("ready") {
                    pending.retain(|&x| x != a); polled.remove(&a); tokens.push(ntok); ntok += 1;
                    if live_before >= max { or.fail(format!("a token was handed out while {live_before} tokens were alive (limit {max})"), log.replay_block(), "C13:over-limit".into()); }
                } else {
                    if live_before < max { or.fail(format!("get_token did not complete although a slot is free ({live_before} live, limit {max})"), log.replay_block(), "C13:not-immediate".into()); }
                    contended = true;
                    polled.insert(a, wakes_of(&o).get(&a).copied().unwrap_or(0));
                }
                o
            } else if choice < 8 && !pending.is_empty() {
                let a = *rng.pick(&pending); pending.retain(|&x| x != a); polled.remove(&a);
                ex(&mut log, &mut im, &format!("k.drop_pending {a}"))
            } else if !tokens.is_empty() {
                let t = *rng.pick(&tokens); tokens.retain(|&x| x != t);
                ex(&mut log, &mut im, &format!("{} {t}", if rng.chance(1, 4) { "k.drop_token_u" } else { "k.drop_token" }))
            } else { continue };
            let live: usize = field(&o, "live").and_then(|x| x.parse().ok()).unwrap_or(usize::MAX);
            if live > max { or.fail(format!("{live} live tokens with a limit of {max}"), log.replay_block(), "C13:over-limit".into()); }
            if live != tokens.len() { or.fail("harness token bookkeeping out of sync".into(), log.replay_block(), "C13:bookkeeping".into()); }
            // a free slot is never stranded: some registered request has been woken since its last poll
            let w = wakes_of(&o);
            if live < max && !polled.is_empty() && !polled.iter().any(|(a, at)| w.get(a).copied().unwrap_or(0) > *at) {
                or.fail(format!("a slot is free ({live} live, limit {max}) while {} request(s) are queued, but none of them has been woken", polled.len()), log.replay_block(), "C13:stranded-slot".into());
            }
        }
        or.eval((ci, max, clones, len), contended);
        if ci == 0 { or.sample(format!("limit {max}, {clones} clone(s), history of {len} ops: {}", log.cur.iter().take(12).cloned().collect::<Vec<_>>().join(" ; "))); }
    }
    // real threads: failing-input search only
    let rounds = ctx.n(3, 30);
    for r in 0..rounds {
        let max = 1 + (r as usize % 3);
        let runner: &'static fastcgi_server::async_io::Runner = Box::leak(Box::new(config(8192, max).async_runner()));
        let live = Arc::new(AtomicUsize::new(0)); let over = Arc::new(AtomicUsize::new(0));
        let hs: Vec<_> = (0..8).map(|t| { let (live, over) = (live.clone(), over.clone()); let r2: &'static _ = if t % 2 == 0 { runner } else { Box::leak(Box::new(runner.clone())) };
            std::thread::spawn(move || { for _ in 0..300 {
                let tok = block_on(r2.get_token());
                let n = live.fetch_add(1, Ordering::SeqCst) + 1; if n > max { over.fetch_add(1, Ordering::SeqCst); }
                std::thread::yield_now();
                live.fetch_sub(1, Ordering::SeqCst); drop(tok);
            } }) }).collect();
        for h in hs { let _ = h.join(); }
        if over.load(Ordering::SeqCst) > 0 { or.fail(format!("thread stress: more than {max} tokens alive at once"), "# case thread-stress".into(), "C13:over-limit-threads".into()); }
        or.eval(("threads", r), true); or.count("thread_stress_rounds");
    }
    or.notes.push("the thread stress also shows no acquirer is stranded: all 8 x 300 acquisitions complete".into());
    // the permit lives exactly as long as the connection task (Token::run): probes of a saturated semaphore around real connections
    crate::runfam::c13_conn(ctx, &mut log, &mut im, &mut or);
    or.count_n("corr_ops", log.nops);
    log.finish();
    or.write(&ctx.dir);
}

/// minimal thread-parking executor
pub fn block_on<F: Future>(f: F) -> F::Output {
    struct Th(std::thread::Thread);
    impl std::task::Wake for Th { fn wake(self: Arc<Self>) { self.0.unpark(); } fn wake_by_ref(self: &Arc<Self>) { self.0.unpark(); } }
    let w = std::task::Waker::from(Arc::new(Th(std::thread::current())));
    let mut cx = Context::from_waker(&w);
    let mut f = std::pin::pin!(f);
    loop { match f.as_mut().poll(&mut cx) { Poll::Ready(v) => return v, Poll::Pending => std::thread::park_timeout(std::time::Duration::from_millis(200)) } }
}

pub fn c14_wg(ctx: &mut Ctx, log: &mut Log, im: &mut Impl, or: &mut Oracle) {
    let mut rng = ctx.rng.fork();
    for ci in 0..ctx.n(600, 12_000) {
        if or.saturated() { or.count("stopped_early_saturated"); break; }
        let n = rng.usize_below(4);
        log.case(&format!("c14-wg-{ci}"));
        // half of the histories: a clone of the runner, alive with 0..2 tokens of its own, exists throughout — it must not delay,
        // nor be needed for, the completion of the ORIGINAL's shutdown
        if rng.chance(1, 2) { let c = rng.usize_below(3); ex(log, im, &format!("g.new {n} {c}")); or.count("histories_with_live_clone"); } else { ex(log, im, &format!("g.new {n}")); }
        let mut alive: Vec<usize> = (0..n).collect();
        let mut last_pending_wakes: Option<usize> = None;
        let mut last_poller: Option<(bool, usize)> = None;   // (second waker?, its wake count at that poll)
        let len = 1 + rng.usize_below(10);
        for step in 0..len + n + 1 {
            let do_poll = alive.is_empty() || rng.chance(1, 2) || step >= len;
            if !alive.is_empty() && step < len && rng.chance(1, 4) {
                // a token drop forced into the poll, between upgrade and register (1) or between register and the drop of the temporary Arc (2)
                let t = *rng.pick(&alive); let point = 1 + rng.below(2);
                let o = ex(log, im, &format!("g.pollh {point} {t}"));
                let w: usize = field(&o, "wakes").and_then(|x| x.parse().ok()).unwrap_or(0);
                if field(&o, "hook") == Some("fired") { alive.retain(|&x| x != t); or.count(&format!("hooked_drop_at_point_{point}")); }
                if o.starts_with("ready") { if !alive.is_empty() { or.fail(format!("shutdown future completed while {} token(s) are alive", alive.len()), log.replay_block(), "C14:early-completion".into()); } last_pending_wakes = None; last_poller = None; }
                else {
                    // Pending: if that drop was the last one, the task must have been woken for the completion (by the poll's own temporary Arc going away)
                    if alive.is_empty() && w <= last_pending_wakes.unwrap_or(0) && w == 0 { or.fail(format!("the last token was dropped inside the poll (point {point}) which returned Pending, and the task was never woken"), log.replay_block(), "C14:lost-wake-in-window".into()); }
                    if alive.is_empty() { let before = last_pending_wakes.unwrap_or(0); if w <= before { or.fail(format!("last drop in the window at point {point}: no wake-up after the registration"), log.replay_block(), "C14:lost-wake-in-window".into()); } }
                    last_pending_wakes = Some(w);
                    let wb: usize = field(&o, "wb").and_then(|x| x.parse().ok()).unwrap_or(0); last_poller = Some((false, w - wb));
                }
            } else if do_poll && (step < len || alive.is_empty()) {
                // the future may be polled by different tasks over its life (two wakers): the completion wake-up belongs to whoever polled last
                let second = rng.chance(1, 3);
                let o = ex(log, im, if second { "g.poll2" } else { "g.poll" });
                let w: usize = field(&o, "wakes").and_then(|x| x.parse().ok()).unwrap_or(0);
                let wb: usize = field(&o, "wb").and_then(|x| x.parse().ok()).unwrap_or(0);
                if o.starts_with("ready") { if !alive.is_empty() { or.fail(format!("shutdown future completed while {} token(s) are alive", alive.len()), log.replay_block(), "C14:early-completion".into()); } last_pending_wakes = None; last_poller = None; }
                else { if alive.is_empty() { or.fail("shutdown future still pending after the last token was dropped".into(), log.replay_block(), "C14:not-completing".into()); } last_pending_wakes = Some(w); last_poller = Some((second, if second { wb } else { w - wb })); if second { or.count("polls_with_second_waker"); } }
            } else if !alive.is_empty() {
                let t = *rng.pick(&alive); alive.retain(|&x| x != t);
                let o = ex(log, im, &format!("{} {t}", if rng.chance(1, 3) { "g.dropu" } else { "g.drop" }));
                let w: usize = field(&o, "wakes").and_then(|x| x.parse().ok()).unwrap_or(0);
                if alive.is_empty() { if let Some(at) = last_pending_wakes { if w <= at { or.fail("the last token was dropped after a pending poll, but the shutdown task was not woken".into(), log.replay_block(), "C14:lost-wake".into()); } } }
                if alive.is_empty() { if let Some((second, at)) = last_poller { let wb: usize = field(&o, "wb").and_then(|x| x.parse().ok()).unwrap_or(0); let mine = if second { wb } else { w - wb };
                    if mine <= at { or.fail(format!("the last token was dropped; the task that polled the shutdown future last (waker {}) was not woken — the wake-up went to a stale waker", if second { "B" } else { "A" }), log.replay_block(), "C14:stale-waker".into()); } } }
                else if let Some(at) = last_pending_wakes { if w > at { or.count("spurious_wake_before_last_drop"); } }
            }
        }
        or.eval((ci, n), true); or.count("waitgroup_histories");
    }
    // "after the last token has been dropped — never earlier", seen from INSIDE the completion wake-up: a waker that, when woken, asks a
    // clone of the runner for a token.  All slots were taken, so the request is granted at that instant iff the token whose drop causes
    // the wake-up has already given back its connection slot, i.e. is really gone.  (Oracle only: plain Rust on the crate, no line protocol.)
    {
        struct ProbeWaker { runner: fastcgi_server::async_io::Runner, seen: std::sync::Mutex<Vec<bool>> }
        impl std::task::Wake for ProbeWaker {
            fn wake(self: Arc<Self>) { self.wake_by_ref() }
            fn wake_by_ref(self: &Arc<Self>) {
                let f = self.runner.get_token(); futures_util::pin_mut!(f);
                let w = futures_util::task::noop_waker(); let mut cx = Context::from_waker(&w);
                let granted = match f.poll(&mut cx) { Poll::Ready(t) => { drop(t); true } Poll::Pending => false };
                self.seen.lock().unwrap().push(granted);
            }
        }
        for ci in 0..ctx.n(40, 400) {
            let n = 1 + rng.usize_below(4);
            let runner = config(8192, n).async_runner();
            let nw = futures_util::task::noop_waker(); let mut ncx = Context::from_waker(&nw);
            let mut toks = vec![];
            for _ in 0..n { let f = runner.get_token(); futures_util::pin_mut!(f); if let Poll::Ready(t) = f.poll(&mut ncx) { toks.push(t); } }
            if toks.len() != n { or.fail("could not take all tokens of a fresh runner".into(), "# case flat-oracle".into(), "C14:probe-setup".into()); continue; }
            let pw = Arc::new(ProbeWaker { runner: runner.clone(), seen: Default::default() });
            let waker = std::task::Waker::from(pw.clone());
            let mut fut: std::pin::Pin<Box<dyn Future<Output = ()>>> = Box::pin(runner.shutdown());
            let mut cx = Context::from_waker(&waker);
            if fut.as_mut().poll(&mut cx).is_ready() { or.fail(format!("shutdown future completed while {n} token(s) are alive"), "# case flat-oracle".into(), "C14:early-completion".into()); continue; }
            let unwind_last = rng.chance(1, 3);
            while toks.len() > 1 { let k = rng.usize_below(toks.len()); drop(toks.swap_remove(k)); }
            let before = pw.seen.lock().unwrap().len();
            let last = toks.pop().unwrap();
            if unwind_last { let _ = catch(move || -> () { let _held = last; panic!("unwinding drop") }); } else { drop(last); }
            let seen = pw.seen.lock().unwrap().clone();
            let done = fut.as_mut().poll(&mut cx).is_ready();
            if !done { or.fail("shutdown future still pending after the last token was dropped".into(), "# case flat-oracle".into(), "C14:not-completing".into()); }
            if seen.len() <= before { or.fail("the last token was dropped after a pending poll, but the shutdown task was not woken".into(), "# case flat-oracle".into(), "C14:lost-wake".into()); }
            else if seen[before..].iter().any(|g| !*g) { or.fail(format!("the shutdown task was woken for the completion (runner with {n} slot(s), all taken; last token dropped{}) while that token still occupied its connection slot: a token request made inside the wake-up was not granted — the shutdown completes before the last token is gone", if unwind_last { " during unwinding" } else { "" }), "# case flat-oracle".into(), "C14:completion-before-slot-release".into()); }
            or.eval((ci, "probe"), true); or.count("completion_wakeups_probed");
        }
    }
    // real threads: the last drop racing with a poll (failing-input search; the step-level interleavings are covered by the theorem)
    // One persistent dropper thread; per round the two threads are released together and their relative timing is swept
    // (spin counts), so that the FIRST poll of a fresh shutdown future overlaps the drop of the last token.  A first poll
    // that returns Pending must be followed by a wake (there is no earlier registration that could mask a lost one).
    let rounds = ctx.n(60_000, 1_500_000);
    let mut lost = 0u64; let mut overlapped = 0u64;
    {
        use std::sync::atomic::{AtomicBool, AtomicUsize as AU}; use std::sync::Mutex;
        let slot: Arc<Mutex<Option<fastcgi_server::async_io::Token>>> = Arc::new(Mutex::new(None));
        let phase = Arc::new(AU::new(0)); let stopf = Arc::new(AtomicBool::new(false)); let spin = Arc::new(AU::new(0));
        let dropper = { let (slot, phase, stopf, spin) = (slot.clone(), phase.clone(), stopf.clone(), spin.clone());
            std::thread::spawn(move || { let mut round = 0usize; loop {
                while phase.load(Ordering::Acquire) != 2 * round + 1 { if stopf.load(Ordering::Relaxed) { return; } std::hint::spin_loop(); }
                let token = slot.lock().unwrap().take();
                for _ in 0..spin.load(Ordering::Relaxed) { std::hint::spin_loop(); }
                drop(token);
                phase.store(2 * round + 2, Ordering::Release);
                round += 1;
            } }) };
        let t0 = std::time::Instant::now();
        let mut done_rounds = 0u64;
        for round in 0..rounds as usize {
            if t0.elapsed().as_secs() > if ctx.tier_thorough { 120 } else { 20 } { break; }
            let runner = config(8192, 2).async_runner();
            let w = futures_util::task::noop_waker(); let mut cx0 = Context::from_waker(&w);
            let tok = { let f = runner.get_token(); futures_util::pin_mut!(f); match f.poll(&mut cx0) { Poll::Ready(t) => t, Poll::Pending => { phase.store(2 * round + 1, Ordering::Release); while phase.load(Ordering::Acquire) != 2 * round + 2 { std::hint::spin_loop(); } continue } } };
            *slot.lock().unwrap() = Some(tok);
            let cw = Arc::new(CountWaker(Default::default()));
            let waker = std::task::Waker::from(cw.clone());
            let mut cx = Context::from_waker(&waker);
            let mut fut = Box::pin(runner.shutdown());
            spin.store(round % 61, Ordering::Relaxed);
            let my_spin = (round / 61) % 61 + 40;
            phase.store(2 * round + 1, Ordering::Release);
            for _ in 0..my_spin { std::hint::spin_loop(); }
            let first = fut.as_mut().poll(&mut cx);
            while phase.load(Ordering::Acquire) != 2 * round + 2 { std::hint::spin_loop(); }
            done_rounds += 1;
            if first.is_pending() {
                overlapped += 1;
                if cw.0.load(Ordering::SeqCst) == 0 { lost += 1; }
                else if !fut.as_mut().poll(&mut cx).is_ready() { or.fail("shutdown future pending after the last token was dropped on another thread".into(), "# case thread-race".into(), "C14:not-completing-threads".into()); }
            }
        }
        stopf.store(true, Ordering::Relaxed);
        let _ = dropper.join();
        or.count_n("thread_race_rounds_run", done_rounds);
        or.count_n("thread_race_first_poll_before_drop_completed", overlapped);
    }
    if lost > 0 { or.fail(format!("{lost} race round(s): the first poll returned Pending, the last token was dropped concurrently, and the waker was never invoked"), "# case thread-race".into(), "C14:lost-wake-threads".into()); }
    or.count_n("thread_race_rounds", rounds);
}
